#!/bin/bash
# tools/runall.sh quick|thorough [ids...] : run every registered check on the current tree, print one line each.
tier="${1:-quick}"; shift
base=$(cd "$(dirname "$0")/.." && pwd)
ids="$@"; [ -z "$ids" ] && ids=$(python3 -c "import json;print(' '.join(c['property_id'] for c in json.load(open('$base/MANIFEST.json'))['checks']))")
rc=0
for id in $ids; do
  out=$("$base/check" $id $tier 2>&1); code=$?
  echo "$id exit=$code $(echo "$out" | grep -E '^(OK|VIOLATION|HARNESS|KNOWN-FINDING)' | head -3 | tr '\n' ' ')"
  [ $code -ne 0 ] && rc=1 && echo "$out" | tail -15
done
exit $rc
