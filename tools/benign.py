#!/usr/bin/env python3
"""Negative controls: behaviour-preserving or property-preserving edits of golang/mod. Every named
check must stay silent (exit 0) on each of them. Patches and results go to /verif/seeded/benign/.

usage: benign.py [name-substring]
"""
import json, os, subprocess, sys

ENV = dict(os.environ, GOFLAGS="-mod=mod", GOPROXY="off", GOSUMDB="off", GOTOOLCHAIN="local")

# name, [(file, old, new)...], checks that must stay silent
B = [
 ("client-error-texts-reworded", [("sumdb/client.go", 'fmt.Errorf("cannot authenticate record data in server response")', 'fmt.Errorf("record data does not match the authenticated leaf hash")'),
                                   ("sumdb/client.go", 'fmt.Errorf("cannot validate record %d in tree of size %d", id, latest.N)', 'fmt.Errorf("record %d is beyond the latest tree (size %d)", id, latest.N)')], ["C01", "C13", "C14"]),
 ("security-message-reworded", [("sumdb/client.go", 'fmt.Fprintf(&buf, "old database:\\n\\t%s\\n", indent(olderNote))', 'fmt.Fprintf(&buf, "previously trusted tree head:\\n\\t%s\\n", indent(olderNote))'),
                                 ("sumdb/client.go", 'fmt.Fprintf(&buf, "new database:\\n\\t%s\\n", indent(newerNote))', 'fmt.Fprintf(&buf, "tree head just received:\\n\\t%s\\n", indent(newerNote))'),
                                 ("sumdb/client.go", 'fmt.Fprintf(&buf, "proof of misbehavior:\\n\\t%v", h)', 'fmt.Fprintf(&buf, "evidence (recomputed hash, then consistency proof):\\n\\t%v", h)')], ["C13"]),
 ("client-copies-tile-data", [("sumdb/client.go", "\t\t// Try requested tile from server.\n\t\tdata, err = c.ops.ReadRemote(c.tileRemotePath(tile))\n\t\tif err == nil {\n\t\t\treturn cached{data, nil}\n\t\t}\n",
                               "\t\t// Try requested tile from server.\n\t\tdata, err = c.ops.ReadRemote(c.tileRemotePath(tile))\n\t\tif err == nil {\n\t\t\tout := make([]byte, len(data))\n\t\t\tcopy(out, data)\n\t\t\treturn cached{out, nil}\n\t\t}\n")], ["C01", "C14"]),
 ("client-lock-scope-widened", [("sumdb/client.go", "\tsimLock(&c.latestMu, \"latestMu#5\")\n\tc.latestMu.Lock()\n\tlatest := c.latest\n\tc.latestMu.Unlock()\n",
                                  "\tsimLock(&c.latestMu, \"latestMu#5\")\n\tc.latestMu.Lock()\n\tlatest := c.latest\n\t_ = c.latestMsg\n\tc.latestMu.Unlock()\n")], ["C14"]),
 ("tile-save-after-extract", [("sumdb/tlog/tile.go", "\tr.tr.SaveTiles(tiles, data)\n\n\t// Pull out the requested hashes.\n\thashes := make([]Hash, len(indexes))\n\tfor i, x := range indexes {\n\t\tj := indexTileOrder[i]\n\t\th, err := HashFromTile(tiles[j], data[j], x)\n\t\tif err != nil {\n\t\t\treturn nil, fmt.Errorf(\"bad math in tileHashReader %d %v: lost hash %v: %v\", r.tree.N, indexes, x, err)\n\t\t}\n\t\thashes[i] = h\n\t}\n\n\treturn hashes, nil\n",
                               "\t// Pull out the requested hashes.\n\thashes := make([]Hash, len(indexes))\n\tfor i, x := range indexes {\n\t\tj := indexTileOrder[i]\n\t\th, err := HashFromTile(tiles[j], data[j], x)\n\t\tif err != nil {\n\t\t\treturn nil, fmt.Errorf(\"bad math in tileHashReader %d %v: lost hash %v: %v\", r.tree.N, indexes, x, err)\n\t\t}\n\t\thashes[i] = h\n\t}\n\n\tr.tr.SaveTiles(tiles, data)\n\treturn hashes, nil\n")], ["C10", "C01"]),
 ("tlog-iterative-maxpow2", [("sumdb/tlog/tlog.go", "\tl = 0\n\tfor l < 62 && 1<<uint(l+1) < n {\n\t\tl++\n\t}\n\treturn 1 << uint(l), l\n", "\tif n <= 2 {\n\t\treturn 1, 0\n\t}\n\tl = bits.Len64(uint64(n-1)) - 1\n\treturn 1 << uint(l), l\n")], ["C03", "C09", "C10"]),
 ("note-error-texts", [("sumdb/note/note.go", 'errMalformedNote      = errors.New("malformed note")', 'errMalformedNote      = errors.New("note: malformed message")')], ["C07", "C01"]),
 ("zip-error-texts", [("zip/zip.go", 'errVendored      = errors.New("file is in vendor directory")', 'errVendored      = errors.New("vendored file")'),
                       ("zip/zip.go", 'return fmt.Errorf("target directory %v exists and is not empty", dir)', 'return fmt.Errorf("refusing to unzip into non-empty directory %v", dir)')], ["C05", "C12", "C17"]),
 ("zip-create-buffered-copy", [("zip/zip.go", "\t\tif _, err := io.Copy(w, lr); err != nil {\n\t\t\treturn err\n\t\t}\n\t\tif lr.N <= 0 {\n\t\t\treturn fmt.Errorf(\"file %q is larger than declared size\", path)",
                                 "\t\tif _, err := io.CopyBuffer(w, lr, make([]byte, 4096)); err != nil {\n\t\t\treturn err\n\t\t}\n\t\tif lr.N <= 0 {\n\t\t\treturn fmt.Errorf(\"file %q is larger than declared size\", path)")], ["C05", "C19"]),
 ("dirhash-hex-encoding", [("sumdb/dirhash/hash.go", '\t\tfmt.Fprintf(h, "%x  %s\\n", hf.Sum(nil), file)\n', '\t\tio.WriteString(h, hex.EncodeToString(hf.Sum(nil))+"  "+file+"\\n")\n'),
                            ("sumdb/dirhash/hash.go", '\t"encoding/base64"\n', '\t"encoding/base64"\n\t"encoding/hex"\n')], ["C19"]),
 ("modfile-cleanup-two-pass", [("modfile/read.go", "\tx.Stmt = x.Stmt[:w]\n}\n\nfunc commentsAdd", "\tfor i := w; i < len(x.Stmt); i++ {\n\t\tx.Stmt[i] = nil\n\t}\n\tx.Stmt = x.Stmt[:w]\n}\n\nfunc commentsAdd")], ["C08", "C15", "C16"]),
 ("modfile-setuse-sorted-adds", [("modfile/work.go", "\tfor diskPath, modulePath := range need {\n\t\tf.AddNewUse(diskPath, modulePath)\n\t}\n", "\tvar paths []string\n\tfor diskPath := range need {\n\t\tpaths = append(paths, diskPath)\n\t}\n\tsort.Strings(paths)\n\tfor _, diskPath := range paths {\n\t\tf.AddNewUse(diskPath, need[diskPath])\n\t}\n")], ["C16", "C08"]),
]

def sh(cmd, cwd=None):
    return subprocess.run(cmd, shell=True, cwd=cwd, env=ENV, capture_output=True, text=True)

def main():
    sel = sys.argv[1] if len(sys.argv) > 1 else ""
    outdir = "/verif/seeded/benign"
    os.makedirs(outdir, exist_ok=True)
    resfile = outdir + "/RESULTS.json"
    results = json.load(open(resfile)) if os.path.exists(resfile) else {}
    for name, edits, checks in B:
        if sel and sel not in name:
            continue
        wt = "/tmp/wt/benign-" + name
        sh("git -C /repo worktree remove --force %s" % wt)
        if sh("git -C /repo worktree add -q --detach %s HEAD" % wt).returncode != 0:
            print(name, "worktree failed"); continue
        ok = True
        try:
            for file, old, new in edits:
                p = os.path.join(wt, file)
                s = open(p).read()
                if s.count(old) != 1:
                    print(name, "EDIT DOES NOT APPLY", file, s.count(old)); ok = False; break
                open(p, "w").write(s.replace(old, new))
            if not ok:
                results[name] = {"error": "edit does not apply"}; continue
            b = sh("gofmt -l . ; go build ./... && go build -tags verif ./...", cwd=wt)
            if b.returncode != 0:
                print(name, "does not build:", b.stderr[-400:]); results[name] = {"error": "does not build"}; continue
            t = sh("go test -vet=off -count=1 ./... 2>&1 | grep -E '^(--- FAIL)' | grep -v 'TestVCS\\|TestCertificateTransparency'", cwd=wt)
            suite_ok = t.stdout.strip() == ""
            open("%s/%s.diff" % (outdir, name), "w").write(sh("git diff", cwd=wt).stdout)
        finally:
            sh("git -C /repo worktree remove --force %s" % wt)
        res = {}
        for c in checks:
            r = sh("VERIF_SEEDOUT=/tmp/seedout-benign /verif/tools/tryseed.sh %s/%s.diff %s quick" % (outdir, name, c))
            line = [l for l in r.stdout.split("\n") if l.startswith("  C") or l.startswith("VIOLATION") or l.startswith("OK") or l.startswith("HARNESS")]
            res[c] = {"exit": r.returncode, "first": (line[0][:300] if line else r.stdout[-300:])}
            sh("rm -rf /tmp/seedout-benign")
        results[name] = {"pinned_suite_passes": suite_ok, "checks": res, "silent": all(v["exit"] == 0 for v in res.values())}
        print(name, "suite_pass=%s" % suite_ok, {c: v["exit"] for c, v in res.items()})
        json.dump(results, open(resfile, "w"), indent=1)

main()
