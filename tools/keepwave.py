#!/usr/bin/env python3
"""keepwave.py <seed-root> <wave-tag> <log-prefix> [notes.json]
Keeps every seeded change <seed-root>/<ID>/<k> as /verif/seeded/<ID>-<wave-tag><k>-<slug>/ with patch.diff,
demo_test.go.txt, meta.json (the sub-agent's meta + my confirmation line + what the check reported) and
the replay file the check produced (from /tmp/seedout-<ID>-<k>/replays)."""
import json, os, re, shutil, sys, glob

root, tag, logprefix = sys.argv[1:4]
notes = json.load(open(sys.argv[4])) if len(sys.argv) > 4 else {}
for iddir in sorted(glob.glob(root + "/C*")):
    pid = os.path.basename(iddir)
    log = open("%s%s.log" % (logprefix, pid)).read() if os.path.exists("%s%s.log" % (logprefix, pid)) else ""
    blocks = re.split(r"^== ", log, flags=re.M)
    for k in ("1", "2", "3"):
        d = "%s/%s" % (iddir, k)
        if not os.path.exists(d + "/patch.diff"):
            continue
        meta = json.load(open(d + "/meta.json"))
        title = meta.get("title", "change")
        slug = re.sub(r"[^a-z0-9]+", "-", title.lower()).strip("-")
        slug = "-".join(slug.split("-")[:7])
        dst = "/verif/seeded/%s-%s%s-%s" % (pid, tag, k, slug)
        os.makedirs(dst, exist_ok=True)
        shutil.copy(d + "/patch.diff", dst + "/patch.diff")
        shutil.copy(d + "/demo_test.go", dst + "/demo_test.go.txt")
        blk = [b for b in blocks if b.startswith("%s/%s " % (pid, k))]
        confirm, verdict = "", ""
        if blk:
            lines = blk[0].split("\n")
            confirm = next((l for l in lines if l.startswith("suite-unexpected-failures")), "")
            verdict = " | ".join(l.strip() for l in lines if l.startswith("  C") or l.startswith("OK") or l.startswith("HARNESS") or l.startswith("tryseed"))
        meta["origin"] = "written by a sub-agent given only the property text and a scratch worktree (wave %s)" % tag
        meta["confirmed_by_me"] = "scratch worktree: patch applies, builds with and without -tags verif; " + confirm
        meta["check_result"] = verdict
        trylog = "/tmp/try-%s-%s.log" % (pid, k)
        tl = open(trylog).read() if os.path.exists(trylog) else ""
        m = re.search(r"-> exit (\d+)", tl)
        code = m.group(1) if m else "?"
        first = next((l.strip() for l in tl.split("\n") if l.startswith("  C")), "")
        meta["check_result"] = "exit %s; %s" % (code, first)
        meta["caught_by"] = "%s quick" % pid if code == "1" else "NOT caught by %s quick (exit %s)" % (pid, code)
        key = "%s/%s" % (pid, k)
        if key in notes:
            meta["note"] = notes[key]
        reps = sorted(glob.glob("/tmp/seedout-%s-%s/replays/*.json" % (pid, k)))
        if reps:
            shutil.copy(reps[0], dst + "/replay.json")
            meta["replay"] = "replay.json (found by the check with this patch applied)"
        json.dump(meta, open(dst + "/meta.json", "w"), indent=1)
        print(dst, "|", meta["caught_by"])
