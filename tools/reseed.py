#!/usr/bin/env python3
"""Sensitivity regression: re-run every kept seeded change (sub-agent waves, defect reverse patches)
against the check(s) recorded as catching it and report the ones that are no longer caught.
Works on scratch worktrees through tools/tryseed.sh; never touches /repo or /verif/evidence.

usage: reseed.py [-j N] [--refresh] [ID-prefix ...]     e.g. reseed.py C08 C15 C16 D2
--refresh: store the replay file produced now as the seed's replay.json (replay files are tied to the
version of the machinery that wrote them).
Writes /verif/seeded/RESEED.json (name -> {check: exit}).
"""
import json, os, re, subprocess, sys, glob
from concurrent.futures import ThreadPoolExecutor

ENV = dict(os.environ, GOFLAGS="-mod=mod", GOPROXY="off", GOSUMDB="off", GOTOOLCHAIN="local")

def checks_of(meta):
    cb = meta.get("caught_by", "")
    if isinstance(cb, list):
        cb = " ".join(cb)
    ids = re.findall(r"\bC\d\d\b", cb)
    if "NOT caught" in cb and not ids:
        return []
    out = []
    for i in ids:
        if i not in out:
            out.append(i)
    return out or [meta.get("property")]

REFRESH = False

def run(job):
    name, patch, check = job
    so = "/tmp/seedout-re-%s-%s" % (name[:40], check)
    r = subprocess.run("VERIF_SEEDOUT=%s /verif/tools/tryseed.sh %s %s quick" % (so, patch, check), shell=True, env=ENV, capture_output=True, text=True)
    first = [l for l in r.stdout.split("\n") if l.startswith("  C") or l.startswith("HARNESS")]
    if REFRESH and r.returncode == 1:
        files = sorted(glob.glob(so + "/replays/*.json"))
        meta = json.load(open(os.path.dirname(patch) + "/meta.json"))
        own = meta.get("property") == check or len(checks_of(meta)) == 1 or checks_of(meta)[0] == check
        if files:
            dst = os.path.dirname(patch) + ("/replay.json" if own else "/replay-%s.json" % check)
            subprocess.run(["cp", files[0], dst])
    subprocess.run("rm -rf %s" % so, shell=True)
    return name, check, r.returncode, (first[0][:300] if first else "")

def main():
    global REFRESH
    args = sys.argv[1:]
    if "--refresh" in args:
        REFRESH = True
        args.remove("--refresh")
    jobs_n = 1
    if args and args[0] == "-j":
        jobs_n = int(args[1]); args = args[2:]
    jobs = []
    for d in sorted(glob.glob("/verif/seeded/*/")):
        name = os.path.basename(d.rstrip("/"))
        if name in ("benign", "benign2", "own") or not os.path.isfile(d + "patch.diff"):
            continue
        if args and not any(name.startswith(a) for a in args):
            continue
        meta = json.load(open(d + "meta.json"))
        for c in checks_of(meta):
            jobs.append((name, d + "patch.diff", c))
    resfile = "/verif/seeded/RESEED.json"
    results = json.load(open(resfile)) if os.path.exists(resfile) else {}
    bad = 0
    with ThreadPoolExecutor(max_workers=jobs_n) as ex:
        for name, check, rc, first in ex.map(run, jobs):
            results.setdefault(name, {})[check] = rc
            flag = "" if rc == 1 else "   <-- NOT CAUGHT" if rc == 0 else "   <-- HARNESS"
            if rc != 1:
                bad += 1
            print("%-70s %s exit %d%s  %s" % (name[:70], check, rc, flag, first[:120]), flush=True)
            json.dump(results, open(resfile, "w"), indent=1, sort_keys=True)
    print("%d seeded changes x checks run, %d not caught" % (len(jobs), bad))

main()
