#!/bin/bash
# tools/confirmseed.sh <seed-src-dir> <pkgdir-for-demo> <run-regexp> [extra go test flags]
# Confirms in a scratch worktree: patch applies and builds, pinned suite still passes (same failures as clean tree),
# demo fails with the patch and passes without it. Prints a summary line; removes the worktree.
set -u
export GOFLAGS=-mod=mod GOPROXY=off GOSUMDB=off GOTOOLCHAIN=local
src="$1"; pkg="$2"; run="$3"; shift 3; extra="$*"
wt=$(mktemp -d /tmp/wt/confirm.XXXXXX); rmdir "$wt"
git -C /repo worktree add -q --detach "$wt" HEAD || exit 3
cleanup(){ git -C /repo worktree remove --force "$wt" 2>/dev/null; }
trap cleanup EXIT
cd "$wt"
git apply "$src/patch.diff" || { echo "CONFIRM: patch does not apply"; exit 3; }
go build ./... || { echo "CONFIRM: build fails"; exit 3; }
go build -tags verif ./... || { echo "CONFIRM: verif build fails"; exit 3; }
suite=$(go test -vet=off -count=1 ./... 2>&1 | grep -E "^(--- FAIL|FAIL|ok|panic)" | grep -v "^ok" | grep -v "TestCertificateTransparency\|TestVCS\|^FAIL$\|FAIL	golang.org/x/mod/sumdb/tlog\|FAIL	golang.org/x/mod/zip" )
cp "$src/demo_test.go" "$pkg/zz_demo_test.go"
with=$(go test -vet=off -count=1 $extra -run "$run" "./$pkg/" 2>&1 | tail -1)
git apply -R "$src/patch.diff"
without=$(go test -vet=off -count=1 $extra -run "$run" "./$pkg/" 2>&1 | tail -1)
rm -f "$pkg/zz_demo_test.go"
echo "CONFIRM $src: suite-unexpected-failures=[${suite}] demo-with-patch=[${with}] demo-without=[${without}]"
