#!/usr/bin/env python3
"""Own sensitivity wave: small deliberate breaking edits (DESIGN.md section 7), written by the
author of the checks (unlike seeded/<ID>-k-*, which come from sub-agents that saw only a property).
For each edit: build a patch in a scratch worktree, note whether the pinned package tests still
pass, then run the named checks against it with tools/tryseed.sh. Results go to
/verif/seeded/own/RESULTS.json and one patch file per edit.

usage: ownmutants.py [name-substring]
"""
import json, os, subprocess, sys, shutil

ENV = dict(os.environ, GOFLAGS="-mod=mod", GOPROXY="off", GOSUMDB="off", GOTOOLCHAIN="local")

# name, file, old, new, package to test, checks expected to catch
M = [
 ("c01-skip-checkrecord", "sumdb/client.go",
  "\t\tif err := c.checkRecord(id, text); err != nil {\n\t\t\treturn cached{nil, err}\n\t\t}\n", "\t\t_, _ = id, text\n", "./sumdb/", ["C01"]),
 ("c01-cache-before-validate", "sumdb/client.go",
  "\t\t// Validate the record before using it for anything.\n", "\t\tif writeCache {\n\t\t\tc.ops.WriteCache(file, data)\n\t\t\twriteCache = false\n\t\t}\n", "./sumdb/", ["C01"]),
 ("c01-save-full-tile-unvalidated", "sumdb/client.go",
  "\t\t\t\treturn cached{data[:len(data)/full.W*tile.W], nil}\n\t\t\t}\n\t\t}\n\n\t\t// Nothing worked.",
  "\t\t\t\tc.ops.WriteCache(c.tileCacheKey(full), data)\n\t\t\t\treturn cached{data[:len(data)/full.W*tile.W], nil}\n\t\t\t}\n\t\t}\n\n\t\t// Nothing worked.", "./sumdb/", ["C01"]),
 ("c13-no-check-on-older-head", "sumdb/client.go",
  "\t\t\tif err := c.checkTrees(tree, msg, latest, latestMsg); err != nil {\n\t\t\t\treturn 0, err\n\t\t\t}\n", "", "./sumdb/", ["C13"]),
 ("c13-install-despite-mismatch", "sumdb/client.go",
  "\t\tif err := c.checkTrees(latest, latestMsg, tree, msg); err != nil {\n\t\t\treturn 0, err\n\t\t}\n",
  "\t\tif err := c.checkTrees(latest, latestMsg, tree, msg); err != nil && err != ErrSecurity {\n\t\t\treturn 0, err\n\t\t}\n", "./sumdb/", ["C13"]),
 ("c13-message-omits-old-note", "sumdb/client.go",
  "\tfmt.Fprintf(&buf, \"old database:\\n\\t%s\\n\", indent(olderNote))\n", "\tfmt.Fprintf(&buf, \"old database:\\n\\t%s\\n\", indent(newerNote))\n", "./sumdb/", ["C13"]),
 ("c14-install-unconditionally", "sumdb/client.go",
  "\t\tif c.latest == latest {\n", "\t\tif true || c.latest == latest {\n", "./sumdb/", ["C14", "C13"]),
 ("c14-latest-read-without-lock", "sumdb/client.go",
  "\tsimLock(&c.latestMu, \"latestMu#5\")\n\tc.latestMu.Lock()\n\tlatest := c.latest\n\tc.latestMu.Unlock()\n", "\tlatest := c.latest\n", "./sumdb/", ["C14"]),
 ("c14-shared-result-slot", "sumdb/client.go",
  "\t\t\tdata[i], errs[i] = r.c.readTile(tile)\n", "\t\t\tdata[i], errs[0] = r.c.readTile(tile)\n", "./sumdb/", ["C14", "C01"]),
 ("c14-tilesaved-map-without-lock", "sumdb/client.go",
  "\tsimLock(&c.tileSavedMu, \"tileSavedMu#6\")\n\tc.tileSavedMu.Lock()\n\tc.tileSaved[tile] = true\n\tc.tileSavedMu.Unlock()\n", "\tc.tileSaved[tile] = true\n", "./sumdb/", ["C14"]),
 ("c10-skip-treehash-compare", "sumdb/tlog/tile.go",
  "\tif th != r.tree.Hash {\n", "\tif len(stx) > 1 && th != r.tree.Hash {\n", "./sumdb/...", ["C10", "C01"]),
 ("c03-swapped-nodehash-right-branch", "sumdb/tlog/tlog.go",
  "\t\treturn NodeHash(p[len(p)-1], oh), NodeHash(p[len(p)-1], th), nil\n", "\t\treturn NodeHash(p[len(p)-1], oh), NodeHash(th, p[len(p)-1]), nil\n", "./sumdb/tlog/", ["C03", "C13"]),
 ("c09-storedhashcount-off", "sumdb/tlog/tlog.go",
  "\tfor i := uint64(n - 1); i&1 != 0; i >>= 1 {\n", "\tfor i := uint64(n - 1); i&1 != 0 && i > 2; i >>= 1 {\n", "./sumdb/tlog/", ["C09"]),
 ("c07-verify-over-whole-message", "sumdb/note/note.go",
  "\t\tok := v.Verify(text, sig)\n", "\t\tok := v.Verify(msg[:split+1], sig)\n", "./sumdb/note/", []),  # equivalent: msg[:split+1] == text (control)
 ("c07-accept-zero-verified", "sumdb/note/note.go",
  "\tif len(n.Sigs) == 0 {\n\t\treturn nil, &UnverifiedNoteError{n}\n\t}\n", "\tif len(n.Sigs) == 0 && len(n.UnverifiedSigs) == 0 {\n\t\treturn nil, &UnverifiedNoteError{n}\n\t}\n", "./sumdb/note/", ["C07", "C01"]),
 ("c07-sign-keeps-replaced-sig", "sumdb/note/note.go",
  "\t\t\tif have[nameHash{name, hash}] {\n\t\t\t\tcontinue\n\t\t\t}\n", "", "./sumdb/note/", ["C07"]),
 ("c05-swallow-copy-error", "zip/zip.go",
  "\t\tif _, err := io.Copy(w, lr); err != nil {\n\t\t\treturn err\n\t\t}\n\t\tif lr.N <= 0 {\n\t\t\treturn fmt.Errorf(\"file %q is larger than declared size\", path)",
  "\t\tio.Copy(w, lr)\n\t\tif lr.N <= 0 {\n\t\t\treturn fmt.Errorf(\"file %q is larger than declared size\", path)", "./zip/", ["C05"]),
 ("c05-drop-grew-check", "zip/zip.go",
  "\t\tif lr.N <= 0 {\n\t\t\treturn fmt.Errorf(\"file %q is larger than declared size\", path)\n\t\t}\n", "", "./zip/", ["C05"]),
 ("c12-prefix-case-insensitive", "zip/zip.go",
  "\t\tif !strings.HasPrefix(zf.Name, prefix) {\n", "\t\tif len(zf.Name) < len(prefix) || !strings.EqualFold(zf.Name[:len(prefix)], prefix) {\n", "./zip/", ["C12"]),
 ("c12-unzip-no-size-check", "zip/zip.go",
  "\t\tif lr.N <= 0 {\n\t\t\treturn fmt.Errorf(\"uncompressed size of file %s is larger than declared size (%d bytes)\", zf.Name, zf.UncompressedSize64)\n\t\t}\n", "", "./zip/", ["C12"]),
 ("c17-vendor-version-flip", "zip/zip.go",
  "\t\tif version.Compare(vers, \"go1.24\") >= 0 {\n\t\t\ti = j + len(\"/vendor/\")", "\t\tif version.Compare(vers, \"go1.24\") < 0 {\n\t\t\ti = j + len(\"/vendor/\")", "./zip/", ["C17"]),
 ("c17-hg-archival-anywhere", "zip/zip.go",
  "\t\tif p == \".hg_archival.txt\" {\n", "\t\tif path.Base(p) == \".hg_archival.txt\" {\n", "./zip/", ["C17"]),
 ("c19-unsorted-hash1", "sumdb/dirhash/hash.go",
  "\tsort.Strings(files)\n", "\tsort.Sort(sort.Reverse(sort.StringSlice(files)))\n", "./sumdb/dirhash/", ["C19"]),
 ("c19-single-space", "sumdb/dirhash/hash.go",
  "\t\tfmt.Fprintf(h, \"%x  %s\\n\", hf.Sum(nil), file)\n", "\t\tfmt.Fprintf(h, \"%x %s\\n\", hf.Sum(nil), file)\n", "./sumdb/dirhash/", ["C19"]),
 ("c15-droprequire-forgets-slice", "modfile/rule.go",
  "\t\tif r.Mod.Path == path {\n\t\t\tr.Syntax.markRemoved()\n\t\t\t*r = Require{}\n\t\t}\n", "\t\tif r.Mod.Path == path {\n\t\t\tr.Syntax.markRemoved()\n\t\t}\n", "./modfile/", ["C15", "C08"]),
 ("c16-setrequire-no-sort", "modfile/rule.go",
  "\tfor path, e := range need {\n\t\tf.AddNewRequire(path, e.version, e.indirect)\n\t}\n\n\tf.SortBlocks()\n", "\tfor path, e := range need {\n\t\tf.AddNewRequire(path, e.version, e.indirect)\n\t}\n", "./modfile/", ["C16"]),
 ("c08-removedups-replace-first-wins", "modfile/rule.go",
  "\tfor i := len(*replace) - 1; i >= 0; i-- {\n\t\tx := (*replace)[i]\n", "\tfor i := 0; i < len(*replace); i++ {\n\t\tx := (*replace)[i]\n", "./modfile/", ["C08"]),
 ("c08-dropexclude-path-only", "modfile/rule.go",
  "\t\tif x.Mod.Path == path && x.Mod.Version == vers {\n\t\t\tx.Syntax.markRemoved()\n\t\t\t*x = Exclude{}\n", "\t\tif x.Mod.Path == path {\n\t\t\tx.Syntax.markRemoved()\n\t\t\t*x = Exclude{}\n", "./modfile/", ["C08"]),
]

def sh(cmd, cwd=None):
    return subprocess.run(cmd, shell=True, cwd=cwd, env=ENV, capture_output=True, text=True)

def main():
    sel = sys.argv[1] if len(sys.argv) > 1 else ""
    outdir = "/verif/seeded/own"
    os.makedirs(outdir, exist_ok=True)
    resfile = outdir + "/RESULTS.json"
    results = json.load(open(resfile)) if os.path.exists(resfile) else {}
    for name, file, old, new, pkg, checks in M:
        if sel and sel not in name:
            continue
        wt = "/tmp/wt/own-" + name
        sh("git -C /repo worktree remove --force %s" % wt)
        r = sh("git -C /repo worktree add -q --detach %s HEAD" % wt)
        if r.returncode != 0:
            print(name, "worktree failed", r.stderr); continue
        try:
            p = os.path.join(wt, file)
            s = open(p).read()
            if s.count(old) != 1:
                print(name, "EDIT DOES NOT APPLY (count=%d)" % s.count(old)); results[name] = {"error": "edit does not apply"}; continue
            open(p, "w").write(s.replace(old, new))
            b = sh("go build ./... && go build -tags verif ./...", cwd=wt)
            if b.returncode != 0:
                print(name, "does not build:", b.stderr[-300:]); results[name] = {"error": "does not build"}; continue
            t = sh("go test -vet=off -count=1 %s 2>&1 | grep -E '^(--- FAIL|FAIL|ok)' | grep -v 'TestVCS\\|TestCertificateTransparency' | grep -v '^ok' | grep -v '^FAIL$' | grep -v 'FAIL\\sgolang.org/x/mod/zip\\s\\|FAIL\\sgolang.org/x/mod/sumdb/tlog\\s'" % pkg, cwd=wt)
            suite_ok = t.stdout.strip() == ""
            patch = sh("git diff", cwd=wt).stdout
            open("%s/%s.diff" % (outdir, name), "w").write(patch)
        finally:
            sh("git -C /repo worktree remove --force %s" % wt)
        caught = {}
        for c in checks:
            r = sh("VERIF_SEEDOUT=/tmp/seedout-own /verif/tools/tryseed.sh %s/%s.diff %s quick" % (outdir, name, c))
            line = [l for l in r.stdout.split("\n") if l.startswith("  C") or l.startswith("VIOLATION") or l.startswith("OK") or l.startswith("HARNESS")]
            caught[c] = {"exit": r.returncode, "first": (line[0][:300] if line else r.stdout[-300:])}
            sh("rm -rf /tmp/seedout-own")
        results[name] = {"file": file, "pinned_package_tests_pass": suite_ok, "checks": caught}
        print(name, "suite_pass=%s" % suite_ok, {c: v["exit"] for c, v in caught.items()})
        json.dump(results, open(resfile, "w"), indent=1)

main()
