#!/usr/bin/env python3
"""Negative controls written by sub-agents (each given only one property's text and a scratch worktree):
changes of golang/mod that alter behaviour the property does not constrain. The property's own check and
every check whose code the change touches must stay silent (exit 0).

usage: [BENIGN_OUT=benign3] benignwave.py <root> [ID[/k]]      root/<ID>/<k>/{patch.diff,meta.json}
Confirms that each patch applies and builds in a scratch worktree, runs the pinned suite (recorded only),
runs the checks through tools/tryseed.sh and keeps patch, meta and verdicts under /verif/seeded/benign2/.
"""
import json, os, subprocess, sys, re

ENV = dict(os.environ, GOFLAGS="-mod=mod", GOPROXY="off", GOSUMDB="off", GOTOOLCHAIN="local")
BY_FILE = [
    (r"^sumdb/(client|cache)\.go", ["C01", "C13", "C14"]),
    (r"^sumdb/(server|test)\.go", ["C14"]),
    (r"^sumdb/tlog/tile\.go", ["C10", "C01"]),
    (r"^sumdb/tlog/(tlog|note)\.go", ["C03", "C09", "C10"]),
    (r"^sumdb/note/", ["C07", "C01"]),
    (r"^sumdb/dirhash/", ["C19"]),
    (r"^zip/", ["C05", "C12", "C17", "C19"]),
    (r"^modfile/", ["C08", "C15", "C16"]),
    (r"^module/", ["C05", "C12", "C17", "C01"]),
    (r"^semver/", ["C16", "C17"]),
]

def sh(cmd, cwd=None):
    return subprocess.run(cmd, shell=True, cwd=cwd, env=ENV, capture_output=True, text=True)

def main():
    root = sys.argv[1]
    sel = sys.argv[2] if len(sys.argv) > 2 else ""
    outdir = "/verif/seeded/" + os.environ.get("BENIGN_OUT", "benign2")
    os.makedirs(outdir, exist_ok=True)
    resfile = outdir + "/RESULTS.json"
    results = json.load(open(resfile)) if os.path.exists(resfile) else {}
    for pid in sorted(os.listdir(root)):
        if not re.match(r"^C\d\d$", pid):
            continue
        for k in sorted(os.listdir(os.path.join(root, pid))):
            d = os.path.join(root, pid, k)
            if not os.path.isfile(d + "/patch.diff"):
                continue
            name = "%s-%s" % (pid, k)
            if sel and not name.startswith(sel.replace("/", "-")):
                continue
            meta = {}
            try:
                meta = json.load(open(d + "/meta.json"))
            except Exception as e:
                meta = {"title": "(meta.json unreadable: %s)" % e}
            wt = "/tmp/wt/bw-" + name
            sh("git -C /repo worktree remove --force %s" % wt)
            if sh("git -C /repo worktree add -q --detach %s HEAD" % wt).returncode != 0:
                print(name, "worktree failed"); continue
            try:
                if sh("git apply %s/patch.diff" % d, cwd=wt).returncode != 0:
                    print(name, "PATCH DOES NOT APPLY"); results[name] = {"error": "patch does not apply"}; continue
                files = sh("git diff --name-only", cwd=wt).stdout.split()
                bad = [f for f in files if f.endswith("_test.go") or not f.endswith(".go")]
                b = sh("go build ./... && go build -tags verif ./...", cwd=wt)
                if b.returncode != 0:
                    print(name, "does not build"); results[name] = {"error": "does not build", "detail": b.stderr[-300:]}; continue
                t = sh("go test -vet=off -count=1 ./... 2>&1 | grep -E '^(--- FAIL)' | grep -v 'TestVCS\\|TestCertificateTransparency'", cwd=wt)
                suite_ok = t.stdout.strip() == ""
            finally:
                sh("git -C /repo worktree remove --force %s" % wt)
            checks = [pid]
            for pat, cs in BY_FILE:
                if any(re.match(pat, f) for f in files):
                    for c in cs:
                        if c not in checks:
                            checks.append(c)
            res = {}
            for c in checks:
                so = "/tmp/seedout-bw-%s-%s" % (name, c)
                r = sh("VERIF_SEEDOUT=%s /verif/tools/tryseed.sh %s/patch.diff %s quick" % (so, d, c))
                line = [l for l in r.stdout.split("\n") if l.startswith("  C") or l.startswith("VIOLATION") or l.startswith("HARNESS")]
                res[c] = {"exit": r.returncode, "first": (line[0][:400] if line else "")}
                if r.returncode != 0:
                    keep = "/tmp/%s-alarms/%s-%s" % (os.environ.get("BENIGN_OUT", "benign2"), name, c)
                    sh("mkdir -p %s && cp -r %s/replays %s/ 2>/dev/null" % (keep, so, keep))
                    open(keep + "/out.txt", "w").write(r.stdout[-6000:] + r.stderr[-2000:])
                sh("rm -rf %s" % so)
            kd = "%s/%s" % (outdir, name)
            os.makedirs(kd, exist_ok=True)
            sh("cp %s/patch.diff %s/patch.diff" % (d, kd))
            meta["origin"] = "written by a sub-agent given only the property text and a scratch worktree (benign wave)"
            meta["touches_test_or_non_go_files"] = bad
            meta["pinned_suite_passes"] = suite_ok
            meta["checks"] = res
            meta["silent"] = all(v["exit"] == 0 for v in res.values())
            json.dump(meta, open(kd + "/meta.json", "w"), indent=1)
            results[name] = {"title": meta.get("title", ""), "pinned_suite_passes": suite_ok, "checks": {c: v["exit"] for c, v in res.items()}, "silent": meta["silent"]}
            print(name, "suite_pass=%s" % suite_ok, {c: v["exit"] for c, v in res.items()}, flush=True)
            json.dump(results, open(resfile, "w"), indent=1)

main()
