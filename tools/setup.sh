#!/bin/bash
# Offline setup after a fresh restore: warm the Go build cache for the simulator (plain and -race builds).
export GOFLAGS=-mod=mod GOPROXY=off GOSUMDB=off GOTOOLCHAIN=local CGO_ENABLED=1
cd /verif/sim || exit 1
cp /repo/go.sum go.sum 2>/dev/null
d=$(mktemp -d /var/tmp/verif-setup.XXXXXX) || exit 1
trap 'rm -rf "$d"' EXIT
go build -tags verif -o "$d/simrun" ./cmd/simrun || exit 1
go build -tags verif -race -o "$d/simrun-race" ./cmd/simrun || exit 1
mkdir -p /verif/evidence /verif/replays
echo "setup ok"
