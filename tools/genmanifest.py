#!/usr/bin/env python3
"""Regenerates /verif/MANIFEST.json from the tables below (run after adding a check)."""
import json, subprocess

NA = {
 "C02": "Format/parse are pure functions of one byte slice: no schedule, fault, clock or history to simulate (DESIGN.md section 5).",
 "C04": "semver functions are total functions of one or two strings; order laws are input-space claims (DESIGN.md section 5).",
 "C06": "Path-validity predicates and pattern matching are pure predicates on strings (DESIGN.md section 5).",
 "C11": "Escaping/unescaping are pure string bijections; injectivity is a property of pairs of inputs (DESIGN.md section 5).",
 "C18": "Pseudo-version construction/parsing are pure functions; the time is an argument, not a clock read (DESIGN.md section 5).",
 "C20": "Parser totality/positions/strict-vs-lax are claims over all byte strings for a pure function of one byte slice (DESIGN.md section 5).",
}

# id -> (engine, technique, level text, level note, design ref)
CHECKS = {
 "C08": ("modsim", "edit-session simulation: seeded operation histories with persistence points (close with Cleanup+Format, reopen with Parse) on two real sessions, each compared with a set/map reference model of the documented operations",
   "Seeded well-formed go.mod/go.work files whose every directive line carries numbered comments, 1-40 operations with valid arguments over small pools, persistence points with probability 1/5 per step; at every persistence point and at the end: the output parses strictly, its directives equal the model as multisets, and every line that no operation removed or rewrote without a documented comment guarantee still has its value and its own leading and end-of-line comments.",
   "Weak fit, stated: modfile has no I/O, clock or concurrency; nothing can be injected. History, persistence points, the caller's reuse of its own lists and buffers, and Go's map order are the only simulator-owned dimensions; the deciding part is the comparison with the reference model. Where the documentation leaves open which of several lines for one key is 'the first', or which operations de-duplicate, a small set of candidate models is carried and the file must agree with one. Finding F3 (see C15) is reported from the file's side as KNOWN-FINDING, exit 0; any other violation is reported.", "4 (C08/C15/C16), 8, 12"),
 "C15": ("modsim", "edit-session simulation (as C08): the exported lists of File/WorkFile after Cleanup are compared with a strict parse of the formatted bytes at every persistence point, for an in-memory session and a re-opened one",
   "Same sessions as C08; oracles: no zero-value placeholder entries after Cleanup, and module/go/toolchain/godebug/require+indirect/exclude/replace/retract+rationale/tool/use lists equal the strict re-parse as multisets, for both the long in-memory session and the session re-opened at persistence points.",
   "Weak fit, stated (see C08). One genuine defect (F3: in a file with a commented retract block the rationale in memory differs from the one a strict parse of the formatted file yields) is recorded in known_findings.json and reported as KNOWN-FINDING, exit 0, at the end of runs in which nothing else is wrong; any other violation is reported.", "4 (C08/C15/C16), 8"),
 "C16": ("modsim", "edit-session simulation of the bulk setters: random pre-state, one SetRequire/SetRequireSeparateIndirect/SetUse with a random requested list, executed on the in-memory session and 4 times from identical re-parsed bytes (sampling Go's map iteration order)",
   "Oracles after the setter and Cleanup: strict parse; exactly one directive per requested path with the requested version and indirect marking, none for other paths; every block in its documented order (reference comparators incl. an independent SemVer precedence); the first existing line of every kept path keeps its leading and end-of-line comments; the one-uncommented-statement case leaves no block mixing direct and indirect requirements; the 4 repetitions are byte-identical.",
   "Weak fit, stated (see C08). Map order is sampled by repetition, not controlled.", "4 (C08/C15/C16)"),
 "C05": ("zipsim", "deterministic simulation of the zip pipeline: simulated zip.File sources and writer with placed I/O faults -> real Create -> stored bytes -> real CheckZip/Unzip in a sandbox; reference restriction checker over the archive listing",
   "Seeded source trees over an adversarial name alphabet, truthful or with 1-3 placed faults (writer error/short write at byte k, Open error, read error after k bytes, file grew/shrank after Lstat, Lstat error, Open reporting not-exist) or inside a busy process (an earlier failed Create, and a complete second Create placed inside one Read of the first), valid and invalid module/version pairs; every successful Create is checked entry by entry against the documented restrictions, then through the real CheckZip and Unzip and compared byte for byte with the files the check reported valid.",
   "Faults that never reached Create are not counted as delivered. Sampled, not exhaustive.", "4 (C05)"),
 "C12": ("zipsim", "deterministic simulation with at-rest fault injection: hostile and damaged archives extracted by the real Unzip into a five-level sentinel sandbox snapshotted before and after; reference restriction checker decides what the zip check must refuse",
   "Seeded archives from three sources (harness-built with hostile names, prefixes, directory entries and mode bits, lying and overflowing declared sizes; Create output truncated / bit-flipped / size-patched; intact Create output) against targets that are missing, empty, non-empty, a file or under a missing parent. Oracles: nothing outside the target changes; CheckZip never accepts an archive that violates a documented restriction; Unzip succeeds exactly when CheckZip accepts, for every archive; Unzip never succeeds on data that contradict their declarations; the extracted tree equals the entries.",
   "Failures of Unzip's MkdirAll/OpenFile/Close are not injected (no seam); its listing of the target directory is behind a verif-tagged seam (zip.SimListing). An entry is a directory entry iff its name ends in a slash. One genuine defect (F2: CheckZip accepts archives whose entry data contradict their declared size or checksum, Unzip refuses them) is recorded in known_findings.json and reported as KNOWN-FINDING, exit 0; any other violation is reported.", "4 (C12), 8"),
 "C17": ("zipsim", "simulation of the file-listing environment (listing order, Lstat results, go.mod read results, real-file-system materialisation) against a reference classifier written from the documented rules",
   "Seeded trees over an adversarial alphabet (case-fold orbits, vendor layouts, nested go.mod in any case, reserved/ill-formed/unclean/absolute names, duplicates, file/dir clashes, irregular modes, sizes at the limits, go versions absent/old/new/unparsable/unreadable) checked with CheckFiles in 3-6 listing orders: exactly-one-list, class by the documented rules (all readings accepted where the documentation is silent), colliding pairs never both valid, order independence; half of the runs compare CreateFromDir/CheckDir with Create/CheckFiles on a materialised tree.",
   "Weak fit: no fault surface beyond listing order and Lstat/read results; the deciding part is the comparison with the reference classifier.", "4 (C17)"),
 "C19": ("zipsim", "deterministic simulation of Hash1's open/read seam with placed faults and listing orders, plus HashZip/HashDir on archives produced and extracted by the zip pipeline; reference h1 formula",
   "Seeded file sets over a hostile name alphabet hashed in 2-4 listing orders and compared with the documented formula; open/read faults placed on chosen files (also an error delivered together with the remaining bytes) must yield an error and no hash; names with a newline at any position are refused; a near-identical second set must hash differently; a third of the runs hash a created zip and its extracted directory (named in five equivalent ways, half of them with a second HashDir placed inside the caller-supplied hash function) and compare both with the formula.",
   "Trusts SHA-256.", "4 (C19)"),
 "C03": ("sumdbsim", "deterministic simulation of the prover/verifier exchange: real Prove*/Check* over a failing HashReader or the faulty tile transport, seeded in-transit mutation of the proof tuple, reference RFC 6962 prover and RFC 9162 verifier as oracle; exhaustive small (t,n) sweep",
   "All (t, n) pairs up to 160 are enumerated (proof equals the reference, accepted, and presented under all 25 shifted (t, n) pairs accepted iff the RFC 9162 algorithm accepts); seeded runs add trees up to 300 real records and virtual uniform trees up to 2^41 leaves, 22 kinds of tuple mutation, HashReader faults and proofs through the authenticating tile reader; a proof already handed out is re-checked after the next proof has been produced. Non-termination of a call is reported after 20 s.",
   "The soundness half is a pure relation on the tuple; the simulator contributes the HashReader/tile-transport fault model. Trusts SHA-256 and sim/ref. Sampled beyond the swept range.", "4 (C03)"),
 "C07": ("sumdbsim", "deterministic simulation of a cosigning chain over a corrupting transport with simulator-implemented Verifiers/Verifier/Signer seams (spies, verdict-decided fakes, failing signers, reused receive buffers); reference note parser + crypto/ed25519 oracle",
   "Seeded chains of origin, 0-4 witnesses and a final reader; every Open is compared with the documented semantics computed independently (accept/reject, text, verified/unverified partition, UnverifiedNoteError content, each verified signature backed by a recorded Verify call over the returned text), every Sign with the exact documented bytes, including a Sign call placed inside another call's signer after a failed signing attempt.",
   "Trusts Ed25519 and the reference parser. Every signature line of a known key is verified, repeated ones included (the reference once copied the code's behaviour of skipping them: defect D16).", "4 (C07)"),
 "C09": ("sumdbsim", "deterministic simulation of a log store built only from tlog.StoredHashes with failing store reads, compared after every append with a reference RFC 6962 tree; virtual uniform logs for sizes beyond memory",
   "Seeded append histories (1-120, thorough 2000 records; texts with Unicode, U+FFFD, buffer-boundary lengths) with store read faults at random appends; after each append store length, coordinates of every new position, every stored hash and TreeHash(m) for all m (<=128) are checked against the reference; coordinates up to 2^60 records and a virtual log up to 2^44 records cover index arithmetic beyond 32 bits; text encodings round-trip. Every third run interleaves 2-4 logs of one process at the HashReader seam (whole operations of other logs run while one is parked inside its read, some after failed reads).",
   "The layout laws are pure relations; the only injectable fault is the HashReader seam. Trusts SHA-256 and sim/ref.", "4 (C09)"),
 "C01": ("sumdbsim", "deterministic simulation with fault injection: real sumdb.Client against a simulated faulty network, cache and config under a tape-driven scheduler with crash-restart; reference RFC 6962/signed-note oracles at every seam",
   "Seeded search over tree shapes, tile heights, 0-3 faults of 20 network kinds + disk/config faults on any response class, concurrent clients, crash-restarts and log growth, plus a systematic placement of each network fault kind on each of the first 8 responses of a lookup for small logs; oracles evaluated at every Lookup return, WriteCache and WriteConfig, then a heal phase checks bounded liveness on the surviving durable state.",
   "Trusts SHA-256/Ed25519 and the reference implementations in sim/ref. A client that consumed a non-benign fault may fail later lookups (never return or store unauthenticated data); disk faults relax every client of the machine. Sampled, not exhaustive.", "4 (C01)"),
 "C13": ("sumdbsim", "deterministic simulation with fault injection: two equivocating log universes signed by the real key, clients sharing a config register, view switches, cross-log cache/config tampering, crash-restart, tape-driven scheduler; lineage and RFC 6962 consistency oracles",
   "Seeded search over pairs of logs (any common prefix, either side smaller/equal/larger), tile heights, interleavings of clients sharing one configuration, restarts at arbitrary hook points, answers and cache entries from the other log, config rollback/replacement; split-view runs show the goroutines of one client process different logs at the same time; schedules drawn from random-switching and priority (PCT) policies. Every WriteConfig is checked (signed, never smaller, contains the previous head by the reference), each client process may only ever accept one lineage, and every SecurityError message must hold both signed heads and a consistency proof that verifies by the reference RFC 9162 algorithm.",
   "Nothing is demanded about which lineage wins while both are consistent with what the client holds. Sampled schedules and forks, not exhaustive. Two genuine defects (F1, in two forms: a lookup succeeds under a tree that contradicts a stored head the process has read or reported; F4: after a failed write-back later lookups succeed under the head that was never stored) are recorded in known_findings.json and reported as KNOWN-FINDING, exit 0; any other violation is reported.", "4 (C13), 8"),
 "C10": ("sumdbsim", "deterministic simulation of the TileReader seam: seeded fault injection on served tiles + placed single-fault sweep, reference RFC 6962 oracle",
   "Seeded search over (tree size, tile height, growth steps, index sets, multi-read histories, 0-3 tile corruptions of 10 kinds) plus a systematic placement of every single corruption kind on each fetched tile for small trees; oracle is an independent RFC 6962 implementation. Evidence over the sampled space, not proof.",
   "Trusts SHA-256 and the reference Merkle code in sim/ref (cross-checked against a naive recursion). The TileReader is simulated; TileHashReader, HashFromTile, NewTiles, Path/ParseTilePath are the real code.", "4 (C10)"),
 "C14": ("sumdbsim", "deterministic simulation: cooperative tape-driven goroutine scheduler over real sumdb.Client/Server/TestServer with simulated ClientOps, built with the race detector",
   "Seeded search over interleavings at every lock/once/spawn/wait hook and every ClientOps call of 2-8 concurrently running lookup goroutines in 1-3 clients; all results compared with the server's lines, fetch-once, head monotonicity and private-path oracles; race detector reports become violations with the schedule as replay.",
   "Interleavings are explored at hook granularity; the race detector covers unsynchronised accesses between hooks. Honest environment only. Schedules are sampled, not enumerated.", "4 (C14), 3.2"),
}

def main():
    commits = subprocess.run(["git","-C","/repo","log","--format=%h %s","e471059..HEAD"],capture_output=True,text=True).stdout.strip().split("\n")
    hook_commits=[c.split()[0] for c in commits if "simulation hook" in c]
    m = {
     "version": 1,
     "setup_cmd": "cd /verif && ./tools/setup.sh",
     "hooks": {
       "guard": "verif",
       "enable": "go build -tags verif (the checks build /verif/sim with `-tags verif`, plus -race for C14, against `replace golang.org/x/mod => /repo`)",
       "baseline_off_cmd": "cd /repo && GOFLAGS=-mod=mod GOPROXY=off GOSUMDB=off GOTOOLCHAIN=local go test -json -vet=off -count=1 -timeout 25m ./...",
       "source_commits": hook_commits,
       "add_only": True,
     },
     "engines": [
       {"name":"sumdbsim","path":"/verif/sim (props/c01,c03,c07,c09,c10,c13,c14 + sched + sw)","serves_properties":["C01","C03","C07","C09","C10","C13","C14"],"kind_free_text":"deterministic simulator: tape-driven choice source with shrinking, cooperative goroutine scheduler (raw-pipe hand-off), simulated network/cache/config/tile server, reference RFC 6962 + signed-note oracles"},
       {"name":"zipsim","path":"/verif/sim (props/c05,c12,c17,c19)","serves_properties":["C05","C12","C17","C19"],"kind_free_text":"deterministic simulator of the zip pipeline: simulated files/writers/readers with placed I/O faults, sandboxed real file system, reference zip rules"},
       {"name":"modsim","path":"/verif/sim (props/c08,c15,c16)","serves_properties":["C08","C15","C16"],"kind_free_text":"edit-session simulator: operation histories with persistence points against a set/map reference model"},
     ],
     "checks": [],
     "notes": "All checks: `./check <ID> quick|thorough`, replay with `./check <ID> --replay <file>`. Exit 0 held / 1 violation / 2 build or harness trouble. Genuine defects: 21 repaired by fix: commits in /repo (D1-D21), 4 recorded as open known findings (F1 and F4: C13; F2: C12; F3: C15 and C08); see known_findings.json, findings/, seeded/ and DESIGN.md sections 8, 11, 12.",
     "not_applicable": [{"property_id":k,"reason":v} for k,v in sorted(NA.items())],
    }
    for pid,(eng,tech,text,note,ref) in sorted(CHECKS.items()):
        m["checks"].append({
          "property_id": pid,
          "quick_cmd": "./check %s quick" % pid,
          "thorough_cmd": "./check %s thorough" % pid,
          "evidence_file": "/verif/evidence/%s.json" % pid,
          "replay_cmd_template": "./check %s --replay {path}" % pid,
          "engine": eng,
          "level_claimed": {"category":"exploration","text":text,"design_ref":"DESIGN.md section "+ref},
          "level_note": note,
          "technique": tech,
        })
    claimed=set(CHECKS); na=set(NA)
    allp=[json.loads(l)["id"] for l in open("/verif/properties.jsonl")]
    pending=[p for p in allp if p not in claimed and p not in na]
    for p in pending:
        m["not_applicable"].append({"property_id":p,"reason":"not yet claimed: the check for this property is still being built (see DESIGN.md section 4); no verdict is offered"})
    json.dump(m,open("/verif/MANIFEST.json","w"),indent=1)
    print("claimed",sorted(claimed),"pending",pending)

main()
