#!/usr/bin/env python3
# keepseed.py <src-dir> <dest-name> <confirm-text> <caught-by-text> [<catching-replay-file>]
import json,sys,shutil,os
src,name,confirm,caught=sys.argv[1:5]
dst='/verif/seeded/'+name
os.makedirs(dst,exist_ok=True)
shutil.copy(src+'/patch.diff',dst+'/patch.diff')
shutil.copy(src+'/demo_test.go',dst+'/demo_test.go.txt')  # .txt so that no Go tool ever picks it up
m=json.load(open(src+'/meta.json'))
m['origin']='written by a sub-agent given only the property text and a scratch worktree'
m['confirmed_by_me']=confirm
m['caught_by']=caught
if len(sys.argv)>5 and sys.argv[5]:
    shutil.copy(sys.argv[5],dst+'/replay.json'); m['replay']='replay.json (found by the check with this patch applied)'
json.dump(m,open(dst+'/meta.json','w'),indent=1)
print('kept',dst)
