#!/bin/bash
# tools/wave.sh <seed-root> <ID> : confirm and try the seeded changes <seed-root>/<ID>/{1,2,3}; print one block per change.
root="$1"; id="$2"
case "$id" in C01|C13|C14) pkg=sumdb;; C10|C03|C09) pkg=sumdb/tlog;; C07) pkg=sumdb/note;; C05|C12|C17) pkg=zip;; C19) pkg=sumdb/dirhash;; C08|C15|C16) pkg=modfile;; esac
for k in 1 2 3; do
  d="$root/$id/$k"; [ -f "$d/patch.diff" ] || continue
  run=$(grep -o "\-run[ =]*['\"]\?[A-Za-z0-9_|^$]*" "$d/demo_test.go" | head -1 | sed "s/-run[ =]*['\"]\?//")
  [ -z "$run" ] && run=$(grep -o "^func Test[A-Za-z0-9_]*" "$d/demo_test.go" | head -1 | sed 's/func //')
  p=$(grep -o "^func Test[A-Za-z0-9_]*" "$d/demo_test.go" | sed 's/func //' | tr '\n' '|' | sed 's/|$//')
  echo "== $id/$k title: $(python3 -c "import json;print(json.load(open('$d/meta.json')).get('title',''))" 2>/dev/null)"
  /verif/tools/confirmseed.sh "$d" "$pkg" "^($p)\$" 2>&1 | tail -1 | sed 's/^CONFIRM [^:]*: //'
  VERIF_SEEDOUT=/tmp/seedout-$id-$k /verif/tools/tryseed.sh "$d/patch.diff" "$id" quick > /tmp/try-$id-$k.log 2>&1
  grep "^  C\|^OK\|^HARNESS\|tryseed" /tmp/try-$id-$k.log | cut -c1-330 | head -3
done
