#!/bin/bash
# tools/tryseed.sh <patch.diff> <ID> [quick|thorough]  — apply a seeded change to /repo, run a check, undo the change.
set -u
patch="$1"; id="$2"; tier="${3:-quick}"
if [ -n "$(git -C /repo status --porcelain)" ]; then echo "/repo not clean"; exit 3; fi
git -C /repo apply "$patch" || { echo "patch does not apply"; exit 3; }
trap 'git -C /repo checkout -- . ; git -C /repo clean -fdq' EXIT
VERIF_REPLAY_DIR=${VERIF_REPLAY_DIR:-} /verif/check "$id" "$tier"
rc=$?
echo "tryseed: $patch on $id -> exit $rc"
exit $rc
