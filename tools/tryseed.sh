#!/bin/bash
# tools/tryseed.sh <patch.diff> <ID> [quick|thorough]  — apply a seeded change to /repo, run a check, undo the change.
set -u
patch="$1"; id="$2"; tier="${3:-quick}"
if [ -n "$(git -C /repo status --porcelain)" ]; then echo "/repo not clean"; exit 3; fi
git -C /repo apply "$patch" || { echo "patch does not apply"; exit 3; }
ev=/verif/evidence/$id.json; bak=$(mktemp); [ -f "$ev" ] && cp "$ev" "$bak"
# undo the change and put back the evidence file of the unchanged tree (a run on a changed tree is not evidence)
trap 'git -C /repo checkout -- . ; git -C /repo clean -fdq; if [ -s "$bak" ]; then cp "$bak" "$ev"; else rm -f "$ev"; fi; rm -f "$bak"' EXIT
VERIF_REPLAY_DIR=${VERIF_REPLAY_DIR:-} /verif/check "$id" "$tier"
rc=$?
echo "tryseed: $patch on $id -> exit $rc"
exit $rc
