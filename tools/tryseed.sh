#!/bin/bash
# tools/tryseed.sh <patch.diff> <ID> [quick|thorough]
# Applies a seeded change to a scratch worktree of /repo (never to /repo itself), runs the check against
# that copy with evidence and replay files redirected to a scratch directory, prints the verdict and the
# replay files, and removes the worktree. Replay files are left in $VERIF_SEEDOUT (default /tmp/seedout).
set -u
patch=$(realpath "$1"); id="$2"; tier="${3:-quick}"
wt=$(mktemp -d /tmp/wt/try.XXXXXX); rmdir "$wt"
git -C /repo worktree add -q --detach "$wt" HEAD || exit 3
out=${VERIF_SEEDOUT:-/tmp/seedout}; mkdir -p "$out"
trap 'git -C /repo worktree remove --force "$wt" 2>/dev/null' EXIT
git -C "$wt" apply "$patch" || { echo "patch does not apply"; exit 3; }
VERIF_REPO="$wt" VERIF_OUT="$out" /verif/check "$id" "$tier"
rc=$?
echo "tryseed: $patch on $id -> exit $rc (replays under $out/replays)"
exit $rc
