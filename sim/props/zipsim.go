package props

import (
	"errors"
	"fmt"
	"io"
	"os"
	"path"
	"sort"
	"strings"
	"sync"
	"time"

	"golang.org/x/mod/module"
	modzip "golang.org/x/mod/zip"

	"verif/sim/choice"
	"verif/sim/ref"
)

// ---- simulated source files (the zip.File seam) ----

type simFile struct {
	path     string
	mode     os.FileMode
	size     int64  // size reported by Lstat
	content  []byte // what Open delivers (nil with virtual=true: `size` zero bytes)
	virtual  bool
	lstatErr error
	openErr  error
	readErr  int // >=0: the reader fails after this many bytes
	chunk    int // reader hands out at most this many bytes per Read (0: unlimited)
	// eofWithData: the reader returns the last bytes together with io.EOF (io.Reader allows it)
	eofWithData bool
	// meanwhile, if set, runs once inside a Read of this file, after the bytes have been copied into
	// the caller's buffer and before Read returns: what another goroutine of the caller does just then
	meanwhile func()
	stats     *zipIOStats
}

// zipIOStats is shared by all files of a run. Nothing says that the code under test touches the files
// one at a time or on the calling goroutine, so the counters are guarded.
type zipIOStats struct {
	mu                   sync.Mutex
	lstats, opens, reads int
	faultsDelivered      map[string]int
}

func (s *zipIOStats) hit(k string) {
	s.mu.Lock()
	defer s.mu.Unlock()
	if s.faultsDelivered == nil {
		s.faultsDelivered = map[string]int{}
	}
	s.faultsDelivered[k]++
}

func (s *zipIOStats) count(n *int) {
	s.mu.Lock()
	*n++
	s.mu.Unlock()
}

type simInfo struct {
	name string
	size int64
	mode os.FileMode
}

func (i simInfo) Name() string       { return i.name }
func (i simInfo) Size() int64        { return i.size }
func (i simInfo) Mode() os.FileMode  { return i.mode }
func (i simInfo) ModTime() time.Time { return time.Time{} }
func (i simInfo) IsDir() bool        { return i.mode.IsDir() }
func (i simInfo) Sys() interface{}   { return nil }

func (f *simFile) Path() string { return f.path }
func (f *simFile) Lstat() (os.FileInfo, error) {
	f.stats.count(&f.stats.lstats)
	if f.lstatErr != nil {
		f.stats.hit("lstat-error")
		return nil, f.lstatErr
	}
	return simInfo{name: path.Base(f.path), size: f.size, mode: f.mode}, nil
}

type simReader struct {
	f      *simFile
	off    int64
	closed bool
	grew   bool
}

func (r *simReader) Read(p []byte) (int, error) {
	f := r.f
	f.stats.count(&f.stats.reads)
	total := int64(len(f.content))
	if f.virtual {
		total = f.size
	}
	if f.readErr >= 0 && r.off >= int64(f.readErr) {
		f.stats.hit("read-error")
		return 0, errSimIO
	}
	if r.off >= total {
		return 0, io.EOF
	}
	n := int64(len(p))
	if f.chunk > 0 && !f.virtual && n > int64(f.chunk) {
		n = int64(f.chunk)
	}
	if n > total-r.off {
		n = total - r.off
	}
	if f.readErr >= 0 && r.off+n > int64(f.readErr) {
		n = int64(f.readErr) - r.off
	}
	if f.virtual {
		for i := int64(0); i < n; i++ {
			p[i] = 0
		}
	} else {
		copy(p, f.content[r.off:r.off+n])
	}
	r.off += n
	if f.meanwhile != nil && n > 0 {
		m := f.meanwhile
		f.meanwhile = nil
		m()
	}
	if !f.virtual && r.off > f.size && !r.grew {
		r.grew = true
		f.stats.hit("grew") // more bytes delivered than Lstat reported
	}
	if f.eofWithData && r.off >= total && !(f.readErr >= 0 && int64(f.readErr) <= total) {
		return int(n), io.EOF
	}
	return int(n), nil
}
func (r *simReader) Close() error { r.closed = true; return nil }

var errSimIO = errors.New("simulated I/O error")

func (f *simFile) Open() (io.ReadCloser, error) {
	f.stats.count(&f.stats.opens)
	if f.openErr != nil {
		f.stats.hit("open-error")
		return nil, f.openErr
	}
	return &simReader{f: f}, nil
}

// ---- adversarial name alphabet ----

var zipElems = []string{
	"a", "b", "A", "pkg", "Pkg", "PKG", "cmd", "vendor", "vendor", "go.mod", "go.mod", "GO.MOD", "Go.Mod", "LICENSE", "License", "x.go", "y.go", "main.go",
	"K", "k", "K", "s", "S", "ſ", "Ω", "ω", "Ω", "σ", "ς", "Σ", "Å", "å", "Å", "é", "É", "ǅ", "ǆ", "Ǆ", "В", "в",
	"con", "CON.txt", "aux.h", "nul", "com1", "lpt9.x", "COM10", "...", ".", "..", "a.", ".hidden", "sp ace", "we!rd#$%&()+,-=@[]^_{}~", "100%", "a%20b",
	"bad*name", "qu?", "back\\slash", "col:on", "tab\t", "\xff", "日本", "x~1", "-dash", "modules.txt", ".hg_archival.txt", ".git", ".svn", "sub", "v2", "api", "apiutil", "api_test", "Docs",
	"q\"uote", "<lt", "pi|pe", "new\nline", "ünï", "२", "á", "README",
}

var zipBenignElems = []string{
	"a", "b", "c", "pkg", "cmd", "x.go", "y.go", "main.go", "util.go", "README", "LICENSE", "docs", "internal", "vendor", "sub", "v2", "api", "apiutil",
	"K", "é", "日本", "sp ace", "we!rd#$%&()+,-=@[]^_{}~", "100%", "go.mod", "modules.txt", "Ω", "ω", "Ω", "σ", "ς", "ǅ", "ǆ", "Pkg", "Docs", "data.json", "a.b.c", ".hidden", "x~1",
}

// zipPathStyle: adv is the chance (in 1/8) that the path is drawn from the fully adversarial alphabet
// and may be unclean; otherwise it is a clean relative path over mostly well-formed names.
func zipPathStyle(src *choice.Src, adv int) string {
	if adv >= 8 || src.Bool(adv, 8) {
		return zipPath(src)
	}
	n := src.Weighted(4, 5, 3, 1) + 1
	var elems []string
	for i := 0; i < n; i++ {
		elems = append(elems, zipBenignElems[src.Intn(len(zipBenignElems))])
	}
	return strings.Join(elems, "/")
}

func zipPath(src *choice.Src) string {
	n := src.Weighted(4, 5, 3, 1) + 1
	var elems []string
	for i := 0; i < n; i++ {
		elems = append(elems, zipElems[src.Intn(len(zipElems))])
	}
	p := strings.Join(elems, "/")
	switch src.Weighted(40, 1, 1, 1, 1, 1) {
	case 1:
		p = "/" + p
	case 2:
		p = p + "/"
	case 3:
		p = "./" + p
	case 4:
		p = strings.Replace(p, "/", "//", 1)
	case 5:
		p = p + "/../" + zipElems[src.Intn(len(zipElems))]
	}
	return p
}

var zipGoVersions = []struct {
	text string
	v    string // go directive version, "" if none/unparsable
}{
	{"module example.com/m\n", ""},
	{"module example.com/m\n\ngo 1.21\n", "1.21"},
	{"module example.com/m\n\ngo 1.23.4\n", "1.23.4"},
	{"module example.com/m\n\ngo 1.24\n", "1.24"},
	{"module example.com/m\n\ngo 1.24.0\n\nrequire example.com/x v1.0.0\n", "1.24.0"},
	{"module example.com/m\n\ngo 1.25rc1\n", "1.25rc1"},
	{"module example.com/m\n\ngo 1.100\n", "1.100"},
	{"module example.com/m\n\ngo 1.9\n", "1.9"},
	{"this is not a go.mod file (((\n", ""},
	{"module example.com/m\ngo 1.24\nunknown directive here\n", "1.24"},
	{"", ""},
	// unparsable as a whole although a go line is intact: no version applies
	{"module example.com/m\n\ngo 1.24\n\nrequire (\n\texample.com/x v1.0.0\n", ""},
	{"module example.com/m\ngo 1.24\ngo 1.23\n", ""},
	{"go 1.24\nmodule example.com/m\nmodule example.com/n\n", ""},
}

var zipModules = []struct {
	m     module.Version
	valid bool
}{
	{module.Version{Path: "example.com/m", Version: "v1.2.3"}, true},
	{module.Version{Path: "example.com/m", Version: "v0.0.0-20200101000000-abcdefabcdef"}, true},
	{module.Version{Path: "example.com/m/v2", Version: "v2.0.1"}, true},
	{module.Version{Path: "gopkg.in/yaml.v3", Version: "v3.0.1"}, true},
	{module.Version{Path: "example.com/Upper/Case", Version: "v1.0.0-pre.1"}, true},
	{module.Version{Path: "example.com/m", Version: "v2.0.0+incompatible"}, true},
	{module.Version{Path: "example.com/m", Version: "v1.2"}, false},      // not canonical
	{module.Version{Path: "example.com/m/v2", Version: "v1.0.0"}, false}, // major mismatch
	{module.Version{Path: "example.com/m", Version: "v1.2.3+meta"}, false},
	{module.Version{Path: "Example.com/m", Version: "v1.0.0"}, false}, // upper case in first element
	{module.Version{Path: "example.com/m", Version: "v2.0.0"}, false},
}

type zipTree struct {
	files []*simFile
	goVer string // go directive of the root go.mod as the reference understands it ("" none)
	stats *zipIOStats
}

// genZipTree draws a source tree.
func genZipTree(src *choice.Src, maxFiles int) *zipTree { return genZipTreeStyle(src, maxFiles, 8) }

// genZipTreeStyle draws a source tree; adv/8 of the paths come from the adversarial alphabet and
// irregular modes are correspondingly rare when adv is low.
func genZipTreeStyle(src *choice.Src, maxFiles int, adv int) *zipTree {
	t := &zipTree{stats: &zipIOStats{}}
	n := src.Range(0, maxFiles)
	gm := -1
	if src.Bool(3, 4) {
		gm = src.Intn(len(zipGoVersions))
	}
	for i := 0; i < n; i++ {
		f := &simFile{path: zipPathStyle(src, adv), mode: 0o644, readErr: -1, stats: t.stats}
		irregular := 2
		if adv < 8 {
			irregular = 0
			if src.Bool(1, 12) {
				irregular = 2
			}
		}
		switch src.Weighted(30, irregular, irregular/2, irregular/2, irregular/2) {
		case 1:
			f.mode = os.ModeSymlink | 0o777
		case 2:
			f.mode = os.ModeDir | 0o755
		case 3:
			f.mode = os.ModeNamedPipe | 0o644
		case 4:
			f.mode = os.ModeDevice | os.ModeCharDevice | 0o644
		}
		f.content = []byte(fmt.Sprintf("content of %q #%d\n%s", f.path, i, strings.Repeat("x", src.Intn(200))))
		f.size = int64(len(f.content))
		t.files = append(t.files, f)
	}
	if gm >= 0 {
		g := &simFile{path: "go.mod", mode: 0o644, content: []byte(zipGoVersions[gm].text), readErr: -1, stats: t.stats}
		g.size = int64(len(g.content))
		t.goVer = zipGoVersions[gm].v
		// the root go.mod may come anywhere in the list
		at := 0
		if len(t.files) > 0 {
			at = src.Intn(len(t.files) + 1)
		}
		t.files = append(t.files[:at:at], append([]*simFile{g}, t.files[at:]...)...)
	}
	return t
}

func (t *zipTree) list() []modzip.File {
	out := make([]modzip.File, len(t.files))
	for i, f := range t.files {
		out[i] = f
	}
	return out
}

// ---- reference classification ----

const (
	clsValid   = 1
	clsOmitted = 2
	clsInvalid = 4
)

func clsName(c int) string {
	var n []string
	if c&clsValid != 0 {
		n = append(n, "valid")
	}
	if c&clsOmitted != 0 {
		n = append(n, "omitted")
	}
	if c&clsInvalid != 0 {
		n = append(n, "invalid")
	}
	return strings.Join(n, "|")
}

// refClassify returns, for each file index, the set of classes the documented
// rules allow, plus the pairs of indices that certainly collide (at most one
// of each pair may be valid). Where the documentation leaves something open
// (which go version applies when the root go.mod is duplicated or unreadable,
// whether a go.mod whose Lstat fails marks a nested module) the classes of
// every possible reading are allowed.
func refClassify(files []*simFile, goVer string, goVerCertain bool) (allowed []int, collide [][2]int) {
	n := len(files)
	maybeSub := false
	for _, f := range files {
		dir, base := path.Split(f.path)
		if strings.EqualFold(base, "go.mod") && dir != "" && f.lstatErr != nil {
			maybeSub = true
		}
	}
	goVariants := []bool{ref.GoAtLeast124(goVer)}
	if !goVerCertain {
		goVariants = []bool{false, true}
	}
	subVariants := []bool{false}
	if maybeSub {
		subVariants = []bool{false, true}
	}
	allowed = make([]int, n)
	strongAll := make([]bool, n)
	for i := range strongAll {
		strongAll[i] = true
	}
	pairCount := map[[2]int]int{}
	variants := 0
	for _, g := range goVariants {
		for _, sv := range subVariants {
			variants++
			a, strong, pairs := refClassifyOne(files, g, sv)
			for i := range a {
				allowed[i] |= a[i]
				strongAll[i] = strongAll[i] && strong[i]
			}
			for _, pr := range pairs {
				pairCount[pr]++
			}
		}
	}
	for pr, c := range pairCount {
		if c == variants && strongAll[pr[0]] && strongAll[pr[1]] {
			collide = append(collide, pr)
		}
	}
	sort.Slice(collide, func(i, j int) bool {
		if collide[i][0] != collide[j][0] {
			return collide[i][0] < collide[j][0]
		}
		return collide[i][1] < collide[j][1]
	})
	return allowed, collide
}

func refClassifyOne(files []*simFile, go124 bool, failedLstatMarksModule bool) (allowed []int, strong []bool, pairs [][2]int) {
	n := len(files)
	allowed = make([]int, n)
	sub := map[string]bool{}
	for _, f := range files {
		dir, base := path.Split(f.path)
		if strings.EqualFold(base, "go.mod") && dir != "" {
			if f.lstatErr == nil && f.mode.IsRegular() || f.lstatErr != nil && failedLstatMarksModule {
				sub[dir] = true
			}
		}
	}
	inSub := func(p string) bool {
		for {
			dir, _ := path.Split(p)
			if dir == "" {
				return false
			}
			if sub[dir] {
				return true
			}
			p = dir[:len(dir)-1]
		}
	}
	strong = make([]bool, n)
	weak := make([]bool, n)
	for i, f := range files {
		p := f.path
		var omit, inval bool
		nameBad := p != path.Clean(p) || path.IsAbs(p) || !ref.FilePathOK(p)
		if nameBad {
			inval = true
		}
		nameOmit := ref.Vendored(p, go124) || inSub(p) || p == ".hg_archival.txt"
		if nameOmit {
			omit = true
		}
		if strings.ToLower(p) == "go.mod" && p != "go.mod" {
			inval = true
			nameBad = true
		}
		if f.lstatErr != nil {
			inval = true
		} else {
			if f.mode&os.ModeType != 0 { // symlink, directory entry, pipe, device: not a regular file
				omit = true
			}
			if p == "go.mod" && f.size > ref.MaxGoMod || p == "LICENSE" && f.size > ref.MaxLICENSE {
				inval = true
			}
		}
		switch {
		case !omit && !inval:
			allowed[i] = clsValid
			strong[i] = true
		case omit && !inval:
			allowed[i] = clsOmitted
			// entries with good names that are omitted only for their mode may still take part in collision detection
			weak[i] = !nameBad && !nameOmit
		case inval && !omit:
			allowed[i] = clsInvalid
			weak[i] = !nameBad && !nameOmit
		default:
			allowed[i] = clsOmitted | clsInvalid
			weak[i] = !nameBad && !nameOmit
		}
	}
	isDir := func(i int) bool { return files[i].lstatErr == nil && files[i].mode.IsDir() }
	for i := 0; i < n; i++ {
		for j := i + 1; j < n; j++ {
			if !(strong[i] || weak[i]) || !(strong[j] || weak[j]) {
				continue
			}
			pi, pj := files[i].path, files[j].path
			var coll bool
			switch {
			case isDir(i) && isDir(j):
				coll = ref.Collide(pi+"/\x00", pj+"/\x01")
			case isDir(i):
				coll = ref.Collide(pi+"/\x00", pj)
			case isDir(j):
				coll = ref.Collide(pi, pj+"/\x00")
			default:
				coll = ref.Collide(pi, pj)
			}
			if !coll {
				continue
			}
			// which member of a colliding pair is reported is not prescribed
			for _, k := range []int{i, j} {
				if allowed[k]&(clsValid|clsOmitted) != 0 {
					allowed[k] |= clsInvalid
				}
			}
			if strong[i] && strong[j] {
				pairs = append(pairs, [2]int{i, j})
			}
		}
	}
	return allowed, strong, pairs
}

func sortedCopy(s []string) []string {
	c := append([]string(nil), s...)
	sort.Strings(c)
	return c
}

// scratchBase picks the directory for per-run sandboxes: a memory-backed file system if the
// machine has one (16 workers creating and deleting small trees contend badly on a journalled disk),
// else the default temporary directory. Both are case-sensitive here.
func scratchBase() string {
	if d := os.Getenv("SIMRUN_SCRATCH"); d != "" {
		return d
	}
	if st, err := os.Stat("/dev/shm"); err == nil && st.IsDir() {
		if d, err := os.MkdirTemp("/dev/shm", "probe-"); err == nil {
			os.Remove(d)
			return "/dev/shm"
		}
	}
	return ""
}

var scratchCounter int

// mkScratch creates a fresh sandbox directory whose name has the same length in every process
// (the code under test may mention path lengths in error texts, which must replay identically).
func mkScratch(tag string) (string, error) {
	base := scratchBase()
	if base == "" {
		base = os.TempDir()
	}
	for tries := 0; tries < 1000; tries++ {
		scratchCounter++
		d := fmt.Sprintf("%s/zs-%s-%010d-%08d", base, tag, os.Getpid(), scratchCounter)
		if err := os.Mkdir(d, 0o755); err == nil {
			return d, nil
		} else if !os.IsExist(err) {
			return "", err
		}
	}
	return "", fmt.Errorf("cannot create a scratch directory under %s", base)
}
