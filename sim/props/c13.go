package props

import (
	"fmt"
	"sort"
	"strings"

	"golang.org/x/mod/sumdb"

	"verif/sim/choice"
	"verif/sim/core"
	"verif/sim/ref"
	"verif/sim/sched"
	"verif/sim/sw"
)

// C13: the client follows one consistent timeline of signed tree heads.
//
// Two log universes A and B share the first k records and diverge after; both
// are signed with the log's real key (an equivocating log). Clients sharing
// one machine's config and cache are shown either universe, the view can
// switch during the run, single answers can come from the other log, cache
// entries can be replaced by the other log's, the config can be rolled back
// or replaced, and client processes crash and restart at arbitrary steps.

type c13Accepted struct {
	what string
	mask int
}

type c13State struct {
	// answerHeads: per client, the sizes of the heads carried by answers of its successful lookups
	answerHeads  map[int][]int64
	answerStarts map[int][]int
	w            *sw.World
	res          *core.Result
	unis         []*sw.Universe
	k            int64
	accepted     map[int][]c13Accepted // per client id
	mask         map[int]int
}

func (st *c13State) lineageOfHead(n int64, h ref.Hash) int {
	m := 0
	for i, u := range st.unis {
		if n <= u.N() && u.Tree.MTH(n) == h {
			m |= 1 << uint(i)
		}
	}
	return m
}

func (st *c13State) lineageOfRecord(id int64, text string) int {
	m := 0
	for i, u := range st.unis {
		if id < u.N() && u.Records[id] == text {
			m |= 1 << uint(i)
		}
	}
	return m
}

func (st *c13State) names(mask int) string {
	var n []string
	for i, u := range st.unis {
		if mask&(1<<uint(i)) != 0 {
			n = append(n, u.Name)
		}
	}
	return "{" + strings.Join(n, ",") + "}"
}

// accept records that client c has accepted something that commits it to the lineages in mask.
func (st *c13State) accept(c *sw.ClientInfo, what string, mask int) {
	if _, ok := st.mask[c.ID]; !ok {
		st.mask[c.ID] = 1<<uint(len(st.unis)) - 1
	}
	st.accepted[c.ID] = append(st.accepted[c.ID], c13Accepted{what, mask})
	before := st.mask[c.ID]
	st.mask[c.ID] &= mask
	if st.mask[c.ID] == 0 && before != 0 {
		var items []string
		for _, a := range st.accepted[c.ID] {
			if a.mask != 1<<uint(len(st.unis))-1 {
				items = append(items, fmt.Sprintf("%s -> only in %s", a.what, st.names(a.mask)))
			}
		}
		st.res.Fail("C13", "one-timeline", "a client accepted two mutually inconsistent signed trees",
			"client %d (fork after record %d) accepted, in one process: %s", c.ID, st.k, strings.Join(items, "; "))
	}
}

func (st *c13State) acceptHeadMsg(c *sw.ClientInfo, what string, msg []byte) {
	if len(msg) == 0 {
		return
	}
	text, ok := sw.ValidSignedHead(msg)
	if !ok {
		return
	}
	n, h, ok := ref.ParseTreeText(text)
	if !ok {
		return
	}
	st.accept(c, fmt.Sprintf("%s (head of size %d)", what, n), st.lineageOfHead(n, h))
}

// onWriteConfig: the per-write oracle (signed, true, never smaller, old is a prefix of new).
func (st *c13State) onWriteConfig(c *sw.ClientInfo, file string, old, new []byte) {
	st.w.CheckConfigWrite("C13", c, file, old, new)
	ntext, ok := sw.ValidSignedHead(new)
	if !ok {
		return
	}
	nn, nh, _ := ref.ParseTreeText(ntext)
	st.acceptHeadMsg(c, "stored latest head", new)
	if len(old) == 0 {
		return
	}
	otext, ok := sw.ValidSignedHead(old)
	if !ok {
		return // the file had been damaged by the environment; nothing to compare with
	}
	on, oh, _ := ref.ParseTreeText(otext)
	if nn < on {
		st.res.Fail("C13", "head-never-shrinks", "stored latest head replaced by a smaller tree", "client %d WriteConfig replaced head of size %d by head of size %d", c.ID, on, nn)
		return
	}
	// old must be a prefix of new: in a universe that has the new head, the first `on` records hash to old's hash
	consistent := false
	for _, u := range st.unis {
		if nn <= u.N() && u.Tree.MTH(nn) == nh && u.Tree.MTH(on) == oh {
			consistent = true
		}
	}
	if !consistent {
		st.res.Fail("C13", "stored-heads-consistent", "stored latest head replaced by a tree that does not contain it",
			"client %d WriteConfig replaced head %s by head %s, which does not contain it as a prefix (fork after record %d)", c.ID, st.w.HeadInfo(old), st.w.HeadInfo(new), st.k)
	}
	if on > st.k && nn > st.k {
		st.res.Probes["config-advanced-beyond-fork"]++
	}
}

// checkSecurityMessage validates a SecurityError message: it must contain both signed heads (two
// validly signed tree heads that are inconsistent with each other). The heads are located by their
// content, not by the wording around them, so that rewording the message is not an alarm. If the
// message also carries hash lines after the heads they are checked as the documented proof of
// misbehaviour (recomputed old hash followed by an RFC 6962 consistency proof); their absence is not
// a violation, because the property only promises the two heads.
func (st *c13State) checkSecurityMessage(c *sw.ClientInfo, msg string) {
	var lines []string
	for _, l := range strings.Split(msg, "\n") {
		lines = append(lines, strings.TrimLeft(l, "\t "))
	}
	type head struct {
		n    int64
		h    ref.Hash
		end  int // index of the line after the note
		text string
	}
	var heads []head
	for i := 0; i < len(lines); i++ {
		if lines[i] != "go.sum database tree" {
			continue
		}
		// text lines up to a blank line, then signature lines
		j := i
		for j < len(lines) && lines[j] != "" {
			j++
		}
		k := j + 1
		for k < len(lines) && strings.HasPrefix(lines[k], "\u2014 ") {
			k++
		}
		if k == j+1 {
			continue // no signature lines
		}
		note := strings.Join(lines[i:j], "\n") + "\n\n" + strings.Join(lines[j+1:k], "\n") + "\n"
		if text, ok := sw.ValidSignedHead([]byte(note)); ok {
			if n, h, ok := ref.ParseTreeText(text); ok {
				heads = append(heads, head{n, h, k, text})
			}
		}
		i = k - 1
	}
	if len(heads) < 2 {
		st.res.Fail("C13", "security-message-both-heads", "security callback did not receive both signed heads",
			"client %d SecurityError message contains %d validly signed tree heads, want 2; message:\n%s", c.ID, len(heads), firstLines(msg, 30))
		return
	}
	// some pair must be mutually inconsistent: otherwise the head that contradicts is missing
	consistent := func(a, b head) bool {
		for _, u := range st.unis {
			if a.n <= u.N() && b.n <= u.N() && u.Tree.MTH(a.n) == a.h && u.Tree.MTH(b.n) == b.h {
				return true
			}
		}
		return false
	}
	var older, newer *head
	for i := range heads {
		for j := i + 1; j < len(heads); j++ {
			if !consistent(heads[i], heads[j]) {
				a, b := &heads[i], &heads[j]
				if a.n > b.n {
					a, b = b, a
				}
				older, newer = a, b
			}
		}
	}
	if older == nil {
		st.res.Fail("C13", "security-message-both-heads", "security message shows only heads that are consistent with each other",
			"client %d SecurityError lists %d signed heads that all belong to one log: the head that contradicts them is not in the message:\n%s", c.ID, len(heads), firstLines(msg, 30))
		return
	}
	st.res.Probes["security-message-has-both-heads"]++
	if older.n == newer.n {
		st.res.Probes["fork-detected-equal-sizes"]++
	} else {
		st.res.Probes["fork-detected-different-sizes"]++
	}
	// optional proof: hash lines after the last head
	last := heads[len(heads)-1].end
	var hashes []ref.Hash
	for _, l := range lines[last:] {
		if l == "" {
			continue
		}
		if _, h, ok := ref.ParseTreeText("go.sum database tree\n0\n" + l + "\n"); ok {
			hashes = append(hashes, h)
		}
	}
	if len(hashes) == 0 {
		return
	}
	if hashes[0] == older.h {
		st.res.Fail("C13", "security-message-proof", "the proof of misbehaviour in the security message shows no mismatch", "client %d: the recomputed hash equals the older head's hash", c.ID)
		return
	}
	if older.n == newer.n {
		// equal sizes: the two signed hashes differ; the recomputed hash must be the newer tree's own hash
		st.res.Probes["security-proof-verified"]++
		return
	}
	if !ref.VerifyConsistency(hashes[1:], older.n, newer.n, hashes[0], newer.h) {
		st.res.Fail("C13", "security-message-proof", "the proof in the security message does not verify (RFC 6962 consistency proof)",
			"client %d: proof of %d hashes between sizes %d and %d does not verify against the newer head", c.ID, len(hashes)-1, older.n, newer.n)
		return
	}
	st.res.Probes["security-proof-verified"]++
}

type c13Scenario struct {
	height   int
	specs    []clientSpec
	serving  [][2]int // per client: universe index, size
	startAt  []int
	switches [][4]int // step, client, universe, size
	tampers  [][3]int // step, kind (0 rollback, 1 cross, 2 garbage, 3 delete), arg
	restarts [][2]int
	faults   []*sw.Fault
}

func c13Explore(src *choice.Src) *core.Result {
	res := core.NewResult()
	height := src.Weighted(3, 3, 2, 1, 1, 1, 1, 2) + 1
	nA := src.Range(1, 40)
	if src.Bool(1, 2) {
		nA = src.Range(1, 9)
	}
	k := src.Range(0, nA)
	base := src.Intn(sw.PoolSize)
	A := buildUniverse("A", base, nA, 0)
	B := A.Fork("B", int64(k))
	nB := k + src.Range(0, 12)
	if nB == 0 {
		nB = 1
	}
	for i := k; B.N() < int64(nB); i++ {
		// same module as A's record at that position with different hashes, or another module
		if i < nA && src.Bool(2, 3) {
			B.Add(A.Mods[i], 1)
		} else {
			B.Add(sw.ModVer{Path: fmt.Sprintf("fork.example/b%d", i), Vers: "v1.0.0"}, 1)
		}
	}
	unis := []*sw.Universe{A, B}

	r := newSumRun("C13", src, res)
	w := r.w
	w.Backend = sw.UniBackend{}
	w.Universes = unis
	r.s.SetShape(src.Intn(6))
	m := w.NewMachine()
	st := &c13State{w: w, res: res, unis: unis, k: int64(k), accepted: map[int][]c13Accepted{}, mask: map[int]int{}}
	w.OnWriteCache = func(c *sw.ClientInfo, file string, data []byte) { w.CheckCacheWrite("C13", c, file, data) }
	w.OnWriteConfig = st.onWriteConfig

	pickReq := func(u *sw.Universe, size int64) lookupReq {
		var id int64
		switch src.Weighted(2, 2, 1, 2) {
		case 0:
			id = size - 1
		case 1:
			id = int64(src.Intn(int(size)))
		case 2:
			id = 0
		default: // around the fork point
			id = int64(k) - 1 + int64(src.Intn(3))
			if id < 0 {
				id = 0
			}
			if id >= size {
				id = size - 1
			}
		}
		mv := u.Mods[id]
		v := mv.Vers
		if src.Bool(1, 4) {
			v += "/go.mod"
		}
		return lookupReq{mv.Path, v}
	}

	nclients := src.Weighted(3, 4, 2) + 1
	var specs []clientSpec
	var starts []int
	for ci := 0; ci < nclients; ci++ {
		ui := src.Intn(2)
		u := unis[ui]
		size := int64(src.Range(1, int(u.N())))
		if src.Bool(1, 2) {
			size = u.N()
		}
		spec := clientSpec{Height: height, Uni: ui, Size: size}
		for t, nt := 0, src.Weighted(5, 2)+1; t < nt; t++ {
			var reqs []lookupReq
			for q, nq := 0, src.Range(1, 4); q < nq; q++ {
				// mostly records of the universe being served, sometimes of the other
				if src.Bool(1, 5) {
					o := unis[1-ui]
					reqs = append(reqs, pickReq(o, o.N()))
				} else {
					reqs = append(reqs, pickReq(u, size))
				}
			}
			spec.Tasks = append(spec.Tasks, reqs)
		}
		specs = append(specs, spec)
		start := 0
		if ci > 0 {
			switch src.Weighted(2, 2, 2) {
			case 1:
				start = src.Range(1, 200)
			case 2:
				start = -1 // when everything before has finished (warm cache, stored head)
			}
		}
		starts = append(starts, start)
	}
	for i, spec := range specs {
		ci := w.NewClient(m, r.s.NewGroup(), height, unis[spec.Uni], spec.Size)
		ci.FatalSecurity = src.Bool(1, 2) // half of the client processes exit in their security callback, as real programs do
		r.clients = append(r.clients, ci)
		r.specs = append(r.specs, spec)
		switch {
		case starts[i] == 0:
			r.startClient(spec, ci, "")
		case starts[i] < 0:
			spec, ci := spec, ci
			r.s.WhenIdle(func() { r.startClient(spec, ci, "") })
		default:
			spec, ci := spec, ci
			r.s.At(starts[i], func() { r.startClient(spec, ci, "") })
		}
	}
	// the view of a client switches to the other log at some step
	for i, ns := 0, src.Weighted(3, 3, 1); i < ns; i++ {
		step, ci, ui := src.Range(1, 200), src.Intn(nclients), src.Intn(2)
		size := int64(src.Range(1, int(unis[ui].N())))
		if src.Bool(1, 2) {
			size = unis[ui].N()
		}
		r.s.At(step, func() {
			c := r.clients[ci]
			c.Uni, c.Size = unis[ui], size
			res.Logf("NETWORK now shows client %d log %s at size %d", c.ID, unis[ui].Name, size)
			res.Faults["view-switch"]++
		})
	}
	// the logs keep growing while clients run: every client's view of the log it is shown moves forward,
	// so that concurrent lookups of one client carry different heads
	for i, ng := 0, src.Weighted(2, 2, 2, 1, 1, 1, 1); i < ng; i++ {
		step := src.Range(1, 150)
		r.s.At(step, func() {
			for _, c := range w.Clients {
				if c.Size < c.Uni.N() {
					c.Size++
				}
			}
			res.Probes["log-grew-during-run"]++
		})
	}
	// environment tampering with the stored head
	for i, nt := 0, src.Weighted(5, 2, 1); i < nt; i++ {
		step, kind, arg := src.Range(1, 250), src.Weighted(3, 3, 1, 1), src.Raw()
		r.s.At(step, func() {
			name := sw.ServerName + "/latest"
			switch kind {
			case 0: // restore from backup: an older valid head of the lineage currently stored
				if text, ok := sw.ValidSignedHead(m.Config[name]); ok {
					n, h, _ := ref.ParseTreeText(text)
					for _, u := range unis {
						if n > 1 && n <= u.N() && u.Tree.MTH(n) == h {
							o := 1 + int64(arg%uint64(n-1))
							m.Config[name] = u.Signed(o)
							res.Logf("CONFIG rolled back from size %d to size %d of log %s", n, o, u.Name)
							res.Faults["config-rollback"]++
							break
						}
					}
				}
			case 1: // replaced by a valid head of either log
				u := unis[arg%2]
				o := 1 + int64(arg/2%uint64(u.N()))
				m.Config[name] = u.Signed(o)
				res.Logf("CONFIG replaced by head of size %d of log %s", o, u.Name)
				res.Faults["config-cross"]++
			case 2:
				m.Config[name] = []byte("garbage\n")
				res.Logf("CONFIG replaced by garbage")
				res.Faults["config-garbage"]++
			default:
				m.Config[name] = []byte{}
				res.Logf("CONFIG emptied")
				res.Faults["config-emptied"]++
			}
		})
	}
	for i, nf := 0, src.Weighted(3, 3, 2); i < nf; i++ {
		f := &sw.Fault{Client: src.Intn(nclients+1) - 1, Occ: src.Weighted(5, 3, 2, 1), A: src.Raw(), B: src.Raw()}
		switch src.Weighted(5, 3, 1, 1, 1, 1) {
		case 5:
			f.Class, f.Kind = "config:write", "config-write-error"
		case 0:
			f.Class, f.Kind = "net:lookup", "equivocate"
		case 1:
			f.Class, f.Kind = []string{"cache:read:lookup", "cache:read:tile"}[src.Intn(2)], "cache-cross"
		case 2:
			f.Class, f.Kind = "net:lookup", "stale"
		case 3:
			f.Class, f.Kind = "cache:write", "cache-write-dropped"
		default:
			f.Class, f.Kind = "net:any", "net-error"
		}
		w.Faults = append(w.Faults, f)
	}
	gen := 0
	for i, nr := 0, src.Weighted(5, 3, 1); i < nr; i++ {
		step, idx := src.Range(1, 200), src.Intn(nclients)
		r.s.At(step, func() {
			old := r.clients[idx]
			if old.Crashed || !old.HasFirstConfig && old.Ops["ReadConfig"] == 0 {
				// not started yet: a crash of a process that does not exist is nothing
			}
			gen++
			res.Logf("CRASH client %d at step %d; restarting on the surviving cache and config", old.ID, r.s.Steps())
			res.Faults["crash-restart"]++
			r.s.AbortGroup(old.Group)
			old.Crashed = true
			nc := w.NewClient(old.Machine, r.s.NewGroup(), old.Height, old.Uni, old.Size)
			nc.FatalSecurity = old.FatalSecurity
			r.clients[idx] = nc
			r.startClient(r.specs[idx], nc, fmt.Sprintf(".r%d", gen))
		})
	}

	// per-lookup oracle: what a successful lookup commits the client to
	r.afterLookup = c13AfterLookup(st, res, int64(k))
	res.Logf("C13 run: height %d, log A %d records, log B %d records, common prefix %d, %d clients, %d faults planned", height, nA, B.N(), k, nclients, len(w.Faults))
	for i, spec := range specs {
		res.Logf("  client %d sees log %s at size %d, start %d", i, unis[spec.Uni].Name, spec.Size, starts[i])
	}
	r.finish(false)
	st.checkStoredAtQuiescence(r, m)
	// security messages
	for _, c := range w.Clients {
		for _, msg := range c.Security {
			st.checkSecurityMessage(c, msg)
		}
	}
	var fk []string
	for f := range res.Faults {
		fk = append(fk, f)
	}
	sort.Strings(fk)
	nOut, nErr := 0, 0
	for _, os := range r.outcomes {
		for _, o := range os {
			nOut++
			if o.Err != nil {
				nErr++
			}
		}
	}
	res.Sig = choice.Mix(res.Digest, choice.MixString(fmt.Sprint(height, nA, B.N(), k, fk)))
	res.Trivial = nOut == 0
	res.Sample = map[string]interface{}{"tile_height": height, "log_A": nA, "log_B": B.N(), "common_prefix": k, "clients": nclients,
		"faults_fired": res.Faults, "lookups": nOut, "lookups_failed": nErr, "config_writes": len(m.ConfigWrites), "security_errors": res.Probes["SecurityError-called"], "scheduler_steps": res.Steps}
	return res
}

// c13SplitView: an equivocating server shows the two logs to different goroutines of ONE long-lived
// client process at the same time (each connection sees one log consistently: its lookup answers and
// its tiles). Whatever the interleaving, one process must not accept heads of both logs beyond the
// fork, the stored head must stay on one timeline, and a reported fork must come with both heads.
func c13SplitView(src *choice.Src) *core.Result {
	res := core.NewResult()
	height := src.Weighted(3, 3, 2, 1, 1, 1, 1, 2) + 1
	k := src.Range(0, 12)
	nA := k + src.Range(1, 10)
	nB := k + src.Range(1, 10)
	base := src.Intn(sw.PoolSize)
	A := buildUniverse("A", base, nA, 0)
	B := A.Fork("B", int64(k))
	for i := k; B.N() < int64(nB); i++ {
		if i < nA && src.Bool(2, 3) {
			B.Add(A.Mods[i], 1)
		} else {
			B.Add(sw.ModVer{Path: fmt.Sprintf("fork.example/b%d", i), Vers: "v1.0.0"}, 1)
		}
	}
	unis := []*sw.Universe{A, B}
	r := newSumRun("C13", src, res)
	w := r.w
	w.Backend = sw.UniBackend{}
	w.Universes = unis
	r.s.SetShape(src.Intn(6))
	m := w.NewMachine()
	st := &c13State{w: w, res: res, unis: unis, k: int64(k), accepted: map[int][]c13Accepted{}, mask: map[int]int{}}
	w.OnWriteCache = func(c *sw.ClientInfo, file string, data []byte) { w.CheckCacheWrite("C13", c, file, data) }
	w.OnWriteConfig = st.onWriteConfig
	// what the machine has stored before the process starts: nothing, or a head of the common history,
	// or a head of log A beyond the fork
	name := sw.ServerName + "/latest"
	switch src.Weighted(3, 3, 1) {
	case 1:
		if k > 0 {
			m.Config[name] = A.Signed(int64(src.Range(1, k)))
		}
	case 2:
		m.Config[name] = A.Signed(int64(src.Range(1, nA)))
	}
	nclients := src.Weighted(4, 1) + 1
	type view struct {
		u *sw.Universe
		n int64
	}
	views := map[int]view{} // root task id -> what its connections are shown
	for ci := 0; ci < nclients; ci++ {
		spec := clientSpec{Height: height, Uni: 0, Size: int64(nA)}
		ntasks := src.Range(2, 4)
		var tv []view
		for t := 0; t < ntasks; t++ {
			ui := (t + src.Intn(2)) % 2
			if t < 2 {
				ui = t // the first two goroutines always see different logs
			}
			u := unis[ui]
			lo := k
			if lo < 1 {
				lo = 1
			}
			n := int64(src.Range(lo, int(u.N())))
			if src.Bool(1, 2) {
				n = u.N()
			}
			tv = append(tv, view{u, n})
			var reqs []lookupReq
			for q, nq := 0, src.Range(1, 3); q < nq; q++ {
				id := int64(src.Intn(int(n)))
				if src.Bool(1, 2) {
					id = n - 1
				}
				mv := u.Mods[id]
				v := mv.Vers
				if src.Bool(1, 4) {
					v += "/go.mod"
				}
				reqs = append(reqs, lookupReq{mv.Path, v})
			}
			spec.Tasks = append(spec.Tasks, reqs)
		}
		c := w.NewClient(m, r.s.NewGroup(), height, A, int64(nA))
		c.FatalSecurity = src.Bool(1, 4)
		c.ViewOf = func() (*sw.Universe, int64) {
			v, ok := views[sched.CurrentRoot()]
			if !ok {
				return nil, 0
			}
			return v.u, v.n
		}
		r.clients = append(r.clients, c)
		r.specs = append(r.specs, spec)
		start := func() {
			first := r.s.NextTaskID()
			r.startClient(spec, c, "")
			for t := range tv {
				views[first+t] = tv[t]
			}
		}
		if ci == 0 {
			start()
		} else if src.Bool(1, 2) {
			r.s.At(src.Range(1, 150), start)
		} else {
			r.s.WhenIdle(start)
		}
	}
	// sometimes the process is killed and restarted on what it stored
	if src.Bool(1, 4) {
		step := src.Range(1, 150)
		r.s.At(step, func() {
			old := r.clients[0]
			if old.Crashed {
				return
			}
			res.Logf("CRASH client %d at step %d; restarting on the surviving cache and config", old.ID, r.s.Steps())
			res.Faults["crash-restart"]++
			r.s.AbortGroup(old.Group)
			old.Crashed = true
			nc := w.NewClient(old.Machine, r.s.NewGroup(), old.Height, old.Uni, old.Size)
			nc.FatalSecurity = old.FatalSecurity
			nc.ViewOf = old.ViewOf
			r.clients[0] = nc
			first := r.s.NextTaskID()
			r.startClient(r.specs[0], nc, ".r")
			for t := range r.specs[0].Tasks {
				views[first+t] = views[t] // client 0's first goroutines have ids 0..ntasks-1
			}
		})
	}
	r.afterLookup = c13AfterLookup(st, res, int64(k))
	res.Logf("C13 split view: height %d, log A %d, log B %d, common prefix %d, %d client processes, stored at start: %d bytes", height, nA, B.N(), k, nclients, len(m.Config[name]))
	res.Faults["split-view(per-goroutine equivocation)"]++
	r.finish(false)
	st.checkStoredAtQuiescence(r, m)
	for _, c := range w.Clients {
		for _, msg := range c.Security {
			st.checkSecurityMessage(c, msg)
		}
	}
	nOut, nErr := 0, 0
	for _, os := range r.outcomes {
		for _, o := range os {
			nOut++
			if o.Err != nil {
				nErr++
			}
		}
	}
	res.Sig = choice.Mix(res.Digest, choice.MixString(fmt.Sprint("split", height, nA, B.N(), k)))
	res.Trivial = nOut == 0
	res.Sample = map[string]interface{}{"tile_height": height, "log_A": nA, "log_B": B.N(), "common_prefix": k, "clients": nclients,
		"lookups": nOut, "lookups_failed": nErr, "config_writes": len(m.ConfigWrites), "security_errors": res.Probes["SecurityError-called"], "scheduler_steps": res.Steps}
	return res
}

func c13AfterLookup(st *c13State, res *core.Result, k int64) func(c *sw.ClientInfo, q lookupReq, lines []string, err error) {
	return func(c *sw.ClientInfo, q lookupReq, lines []string, err error) {
		if err != nil {
			if strings.Contains(err.Error(), sumdb.ErrSecurity.Error()) {
				res.Probes["lookup-failed-with-security-error"]++
				if len(c.Security) == 0 {
					res.Fail("C13", "security-callback-called", "a lookup reported the security error but the security callback was never called", "client %d Lookup(%s): %s", c.ID, q, firstLine(err.Error()))
				}
			}
			return
		}
		if c.HasFirstConfig {
			st.acceptHeadMsg(c, "head found in the configuration at start", c.FirstConfig)
		}
		if len(c.Security) > 0 {
			// This process has already told its security callback that the log forked, and goes on (the
			// callback returned). A lookup that now succeeds under a head the stored configuration
			// contradicts depends on the rejected tree.
			key := "/lookup/" + sw.EscapeRef(q.Path) + "@" + sw.EscapeRef(strings.TrimSuffix(q.Vers, "/go.mod"))
			if _, _, rest, ok := ref.SplitRecordMsg(string(c.Delivered[key])); ok {
				at, aok := sw.ValidSignedHead([]byte(rest))
				ct, cok := sw.ValidSignedHead(c.Machine.Config[sw.ServerName+"/latest"])
				if aok && cok {
					an, ah, _ := ref.ParseTreeText(at)
					cn, ch, _ := ref.ParseTreeText(ct)
					if st.lineageOfHead(an, ah)&st.lineageOfHead(cn, ch) == 0 {
						st.res.Fail("C13", "no-success-after-fork-report", "a lookup succeeds under the rejected tree after the same client reported the fork",
							"client %d reported a fork to its security callback (which returned), then Lookup(%s) succeeded with an answer whose head (size %d) is inconsistent with the stored head (size %d): the in-memory head stayed on the tree the stored configuration contradicts", c.ID, q, an, cn)
					}
				}
			}
		}
		// The same defect without a reported fork (finding F1, second form): before this Lookup was even
		// called, the process had read a stored head that contradicts the head this lookup succeeds under.
		if len(c.Security) == 0 {
			key := "/lookup/" + sw.EscapeRef(q.Path) + "@" + sw.EscapeRef(strings.TrimSuffix(q.Vers, "/go.mod"))
			if _, _, rest, ok := ref.SplitRecordMsg(string(c.Delivered[key])); ok {
				if at, aok := sw.ValidSignedHead([]byte(rest)); aok {
					an, ah, _ := ref.ParseTreeText(at)
					la := st.lineageOfHead(an, ah)
					start := c.LookupStart[c.CurrentTask]
					for _, rd := range c.LatestReads {
						if rd.Step >= start {
							continue
						}
						if ct, cok := sw.ValidSignedHead(rd.Data); cok {
							cn, ch, _ := ref.ParseTreeText(ct)
							if lc := st.lineageOfHead(cn, ch); la != 0 && lc != 0 && la&lc == 0 {
								st.res.Fail("C13", "no-success-against-stored-head-already-read", "a lookup succeeds under a tree that contradicts a stored head the same process had read before the lookup was called",
									"client %d had read a stored head of size %d at step %d; Lookup(%s), called at step %d, succeeded with an answer whose head (size %d) is inconsistent with it: the in-memory head is on the other tree and later lookups are not compared with the configuration again", c.ID, cn, rd.Step, q, start, an)
								break
							}
						}
					}
				}
			}
		}
		key := "/lookup/" + sw.EscapeRef(q.Path) + "@" + sw.EscapeRef(strings.TrimSuffix(q.Vers, "/go.mod"))
		data := c.Delivered[key]
		if id, text, rest, ok := ref.SplitRecordMsg(string(data)); ok {
			st.accept(c, fmt.Sprintf("successful Lookup(%s) of record #%d", q, id), st.lineageOfRecord(id, text))
			st.acceptHeadMsg(c, fmt.Sprintf("tree head carried by the answer to Lookup(%s)", q), []byte(rest))
			if text, ok := sw.ValidSignedHead([]byte(rest)); ok {
				if n, _, ok := ref.ParseTreeText(text); ok {
					if st.answerHeads == nil {
						st.answerHeads = map[int][]int64{}
					}
					st.answerHeads[c.ID] = append(st.answerHeads[c.ID], n)
					if st.answerStarts == nil {
						st.answerStarts = map[int][]int{}
					}
					st.answerStarts[c.ID] = append(st.answerStarts[c.ID], c.LookupStart[c.CurrentTask])
				}
			}
		}
	}
}

// checkStoredAtQuiescence: once every goroutine of a client process has finished normally, every head
// that one of its successful lookups accepted must have reached the stored configuration (the stored
// head is at least as large). Only judged in runs where nothing but the clients wrote the configuration.
func (st *c13State) checkStoredAtQuiescence(r *sumRun, m *sw.Machine) {
	for k := range st.res.Faults {
		switch k {
		case "config-rollback", "config-cross", "config-garbage", "config-emptied", "crash-restart":
			return
		}
	}
	if r.s.Deadlock || r.s.OverBudget {
		return
	}
	stored := int64(0)
	if text, ok := sw.ValidSignedHead(m.Config[sw.ServerName+"/latest"]); ok {
		stored, _, _ = ref.ParseTreeText(text)
	}
	// Only processes all of whose lookups succeeded are judged: a lookup that failed while writing the
	// head back (a fork report, an unreadable tile) leaves the newer head in memory only, and nothing in
	// the property forbids that. When every lookup of a process succeeded, every head it accepted has
	// gone through a completed write-back, so the configuration must cover it; if it does not, a later
	// process on this machine can accept the other log (the property's "across restarts").
	// A lookup that fails while the head is being written back may leave the newer head in memory only.
	// What the property does not allow is that lookups called AFTER that failure succeed under the head
	// that was never stored (known finding F4): those are judged too, under their own oracle.
	lastFail := map[int]int{}
	for _, outs := range r.outcomes {
		for _, o := range outs {
			if o.Err != nil && o.Step > lastFail[o.Client] {
				lastFail[o.Client] = o.Step
			}
		}
	}
	for _, c := range st.w.Clients {
		if c.Machine != m || c.Crashed || len(c.Security) > 0 {
			continue
		}
		for i, n := range st.answerHeads[c.ID] {
			if n <= stored {
				continue
			}
			lf, hadFailure := lastFail[c.ID]
			if !hadFailure {
				st.res.Fail("C13", "accepted-head-is-stored", "a head accepted by a successful lookup never reached the stored configuration",
					"client %d finished normally; one of its successful lookups carried a head of size %d, but the stored latest head has size %d: a later process would not know about the accepted tree", c.ID, n, stored)
				return
			}
			if i < len(st.answerStarts[c.ID]) && st.answerStarts[c.ID][i] > lf {
				st.res.Fail("C13", "no-success-under-unstored-head-after-failed-write-back", "after a lookup failed while writing the head back, later lookups of the same process succeed under the head that was never stored",
					"client %d: a lookup failed at step %d; a lookup called afterwards (step %d) succeeded under a head of size %d; at the end the stored latest head has size %d and nothing retries the write: a later process would not know about the accepted tree", c.ID, lf, st.answerStarts[c.ID][i], n, stored)
				return
			}
		}
	}
	st.res.Probes["stored-head-covers-accepted-heads"]++
}

// c13SweepRun: a systematic small fork. Tape: H-1, nA-1, k, nB-k, order, which, sameProcess.
// Phase 1: a client is shown log X in full and looks up its newest record (so the machine's stored
// head is X's). Phase 2: the same process (view switch) or a new process on the same machine is
// shown the other log in full and looks up one record of it.
func c13SweepRun(src *choice.Src) *core.Result {
	res := core.NewResult()
	height := 1 + src.Intn(8)
	nA := 1 + src.Intn(64)
	k := src.Intn(nA + 1)
	nB := k + src.Intn(16)
	if nB == 0 {
		nB = 1
	}
	order := src.Intn(2)
	which := src.Intn(4)
	same := src.Intn(2) == 1
	fatal := src.Intn(2) == 1
	A := buildUniverse("A", 5, nA, 0)
	B := A.Fork("B", int64(k))
	for i := k; B.N() < int64(nB); i++ {
		if i < nA && i%2 == 0 {
			B.Add(A.Mods[i], 1)
		} else {
			B.Add(sw.ModVer{Path: fmt.Sprintf("fork.example/b%d", i), Vers: "v1.0.0"}, 1)
		}
	}
	unis := []*sw.Universe{A, B}
	first, second := unis[order], unis[1-order]
	r := newSumRun("C13", src, res)
	w := r.w
	w.Backend = sw.UniBackend{}
	w.Universes = unis
	r.s.SwitchNum, r.s.SwitchDen = 0, 1
	m := w.NewMachine()
	st := &c13State{w: w, res: res, unis: unis, k: int64(k), accepted: map[int][]c13Accepted{}, mask: map[int]int{}}
	w.OnWriteCache = func(c *sw.ClientInfo, file string, data []byte) { w.CheckCacheWrite("C13", c, file, data) }
	w.OnWriteConfig = st.onWriteConfig
	req := func(u *sw.Universe, id int64) lookupReq { return lookupReq{u.Mods[id].Path, u.Mods[id].Vers} }
	var id2 int64
	switch which {
	case 0:
		id2 = second.N() - 1
	case 1:
		id2 = 0
	case 2:
		id2 = int64(k)
	default:
		id2 = int64(k) - 1
	}
	if id2 < 0 {
		id2 = 0
	}
	if id2 >= second.N() {
		id2 = second.N() - 1
	}
	r.afterLookup = c13AfterLookup(st, res, int64(k))
	c1 := w.NewClient(m, r.s.NewGroup(), height, first, first.N())
	c1.FatalSecurity = fatal
	r.clients = append(r.clients, c1)
	spec1 := clientSpec{Height: height, Tasks: [][]lookupReq{{req(first, first.N()-1)}}}
	if same {
		// one process: after its first lookup the network shows it the other log
		spec1.Tasks[0] = append(spec1.Tasks[0], req(second, id2))
		r.specs = append(r.specs, spec1)
		r.startClient(spec1, c1, "")
	} else {
		r.specs = append(r.specs, spec1)
		r.startClient(spec1, c1, "")
		c2 := w.NewClient(m, r.s.NewGroup(), height, second, second.N())
		c2.FatalSecurity = fatal
		r.clients = append(r.clients, c2)
		spec2 := clientSpec{Height: height, Tasks: [][]lookupReq{{req(second, id2)}}}
		r.specs = append(r.specs, spec2)
		r.s.WhenIdle(func() { r.startClient(spec2, c2, "") })
	}
	if same {
		// the view switches when the client asks for the second module: serve by module, i.e. show the
		// second log from the first request for a path that only it can answer, or after the first lookup
		w.Backend = &c13SwitchBackend{first: first, second: second, after: 1}
	}
	res.Logf("C13 sweep: height %d, A %d, B %d, prefix %d, first shown %s, second lookup record %d, same process %v", height, nA, B.N(), k, first.Name, id2, same)
	r.finish(false)
	st.checkStoredAtQuiescence(r, m)
	for _, c := range w.Clients {
		for _, msg := range c.Security {
			st.checkSecurityMessage(c, msg)
		}
	}
	res.Sig = choice.Mix(uint64(height), uint64(nA), uint64(k), uint64(nB), uint64(order), uint64(which), choice.MixString(fmt.Sprint(same)))
	res.Sample = map[string]interface{}{"tile_height": height, "log_A": nA, "log_B": B.N(), "common_prefix": k, "first_shown": first.Name, "second_lookup_record": id2, "same_process": same, "security_errors": res.Probes["SecurityError-called"]}
	return res
}

// c13SwitchBackend shows a client the first log for its first `after` lookups and the second log from then on.
type c13SwitchBackend struct {
	first, second *sw.Universe
	after         int
}

func (b *c13SwitchBackend) Serve(w *sw.World, c *sw.ClientInfo, path string) ([]byte, error) {
	if strings.HasPrefix(path, "/lookup/") {
		n := 0
		for p := range c.RemoteReads {
			if strings.HasPrefix(p, "/lookup/") {
				n++
			}
		}
		if n > b.after {
			if c.Uni != b.second {
				c.Uni, c.Size = b.second, b.second.N()
				w.Res.Logf("NETWORK now shows client %d log %s at size %d", c.ID, b.second.Name, c.Size)
				w.Res.Faults["view-switch"]++
			}
		}
	}
	return sw.UniBackend{}.Serve(w, c, path)
}

func c13Enumerate(quick bool, seed uint64, shard, nshards int, emit func([]uint64) bool) bool {
	maxH, maxA := 3, 9
	if quick {
		maxH, maxA = 2, 6
	}
	n := 0
	for h := 1; h <= maxH; h++ {
		for nA := 1; nA <= maxA; nA++ {
			for k := 0; k <= nA; k++ {
				for extra := 0; extra <= 4; extra++ {
					for order := 0; order < 2; order++ {
						for which := 0; which < 4; which++ {
							for same := 0; same < 2; same++ {
								for fatal := 0; fatal < 2; fatal++ {
									n++
									if n%nshards != shard {
										continue
									}
									if !emit([]uint64{uint64(h - 1), uint64(nA - 1), uint64(k), uint64(extra), uint64(order), uint64(which), uint64(same), uint64(fatal)}) {
										return false
									}
								}
							}
						}
					}
				}
			}
		}
	}
	return true
}

func init() {
	core.Register(&core.Prop{
		ID:      "C13",
		Entries: []core.Entry{{Name: "explore", Run: c13Explore}, {Name: "forksweep", Run: c13SweepRun}, {Name: "splitview", Run: c13SplitView}},
		Explore: []string{"explore", "explore", "splitview"},
		Sweeps: []core.Sweep{{Name: "small-forks", Entry: "forksweep", Enumerate: c13Enumerate,
			Space: "tile heights 1..3 (quick 1..2) x log A sizes 1..9 (quick 1..6) x every common prefix length x log B 0..4 records beyond the prefix x which log is shown first x which record the second lookup asks for (newest, oldest, at the fork point, just before it) x {same client process after a view switch, new process on the same machine} x {security callback returns, security callback exits the process}"}},
		Rule: "explore: seeded pair of logs with common prefix 0..n (sizes 1-40 and prefix+0..12), both signed by the log key; 1-3 clients sharing one config and cache, each shown either log at any size, views switching mid-run, answers from the other log, cache entries from the other log, config rollback/replacement/garbage, crash-restarts, tile heights 1-8; every third run is a split view: the goroutines of one client process are each shown a different log at the same time (per-connection equivocation). " +
			"Distinct = digest of the seam event log and schedule; non-trivial = at least one lookup completed.",
		Real:        []string{"sumdb.Client (mergeLatest, mergeLatestMem, checkTrees, checkRecord, tile reading)", "tlog", "note", "sumdb.Server.ServeHTTP over harness ServerOps"},
		Stub:        []string{"two log universes and their signing (reference)", "ClientOps network/cache/config with equivocation and tampering", "scheduler, crash/restart"},
		Assumptions: []string{"nothing is demanded about which lineage wins while both are consistent with what the client holds", "non-security failures are accepted as failures; only success and stored state are judged"},
	})
	core.ExpectProbes("C13", "SecurityError-called", "security-proof-verified", "fork-detected-different-sizes", "fork-detected-equal-sizes", "config-advanced-beyond-fork", "lookup-failed-with-security-error")
}
