package props

import (
	"context"
	"errors"
	"fmt"
	"sort"
	"strings"

	"golang.org/x/mod/module"
	"golang.org/x/mod/sumdb"

	"verif/sim/choice"
	"verif/sim/core"
	"verif/sim/ref"
	"verif/sim/sched"
	"verif/sim/sw"
)

// C14: concurrent lookups behave like sequential ones and fetch each record once.
//
// Real: sumdb.Client (+parCache), tlog, note, module escaping, sumdb.Server,
// sumdb.TestServer. Simulated: ClientOps (network, cache, config register),
// goroutine scheduling. Environment is honest; only benign behaviours
// (cache misses on error, dropped cache writes) are injected.

// the last three lists contain malformed globs, which the documentation says are ignored
var c14NoSumLists = []string{"", "private.example", "private.example/secret,corp.internal", "*.internal,private.example/*/lib", "example.com/a",
	"[internal,private.example", "corp[,,private.example/secret", "private.example/[,example.com/UPPER"}

func c14Explore(src *choice.Src) *core.Result {
	res := core.NewResult()
	r := newSumRun("C14", src, res)
	r.noOnlineSound = true
	w := r.w
	rb := sw.NewRealBackend(w)
	w.Backend = rb

	// scheduler shape
	pct := src.Intn(6) // 4, 5: priority scheduling of depth 2, 3 instead of random switching
	r.s.SetShape(src.Intn(4))
	if pct >= 4 {
		r.s.SetShape(pct)
	}
	height := src.Weighted(3, 3, 2, 1, 1, 1, 1, 2) + 1

	// module universe of this run: a handful of modules so that keys collide
	nmods := src.Range(2, 7)
	base := src.Intn(sw.PoolSize)
	var mods []sw.ModVer
	seenMod := map[string]bool{}
	for i := 0; len(mods) < nmods && i < 3*nmods; i++ {
		m := sw.Pool(base + i*src.Range(1, 5))
		if !seenMod[m.Key()] {
			seenMod[m.Key()] = true
			mods = append(mods, m)
		}
	}
	flavour := uint64(src.Intn(4))
	for _, m := range mods {
		rb.Known[m.Key()] = sw.RecordText(m, flavour)
	}
	ghost := sw.ModVer{Path: "example.com/ghost", Vers: "v9.9.9"} // unknown to the server

	// pre-existing log
	w.Mu.Lock()
	pre := src.Intn(len(mods) + 1)
	for i := 0; i < pre; i++ {
		if _, err := rb.TS.Lookup(context.Background(), module.Version{Path: mods[i].Path, Version: mods[i].Vers}); err != nil {
			core.SetHarnessError("c14: pre-populating test server: " + err.Error())
		}
	}
	// some filler records so that trees have several tiles
	filler := src.Intn(12)
	for i := 0; i < filler; i++ {
		m := sw.ModVer{Path: fmt.Sprintf("filler.example/m%d", i), Vers: "v1.0.0"}
		rb.Known[m.Key()] = sw.RecordText(m, flavour)
		rb.TS.Lookup(context.Background(), module.Version{Path: m.Path, Version: m.Vers})
	}
	w.Mu.Unlock()

	// machines and clients
	nmach := src.Weighted(3, 1) + 1
	for i := 0; i < nmach; i++ {
		m := w.NewMachine()
		m.CaseFold = src.Bool(1, 4)
	}
	nclients := src.Range(1, 3)
	type expect struct {
		private bool
		exists  bool
		lines   []string
	}
	expected := map[string]expect{}
	totalTasks := 0
	for ci := 0; ci < nclients; ci++ {
		spec := clientSpec{Machine: 0, Height: height}
		if ci > 0 && nmach > 1 && src.Bool(1, 3) {
			spec.Machine = 1
		}
		if src.Bool(1, 3) {
			spec.Height = src.Range(1, 8)
		}
		spec.NoSumDB = c14NoSumLists[src.Weighted(5, 2, 2, 2, 1, 1, 1, 1)]
		maxPer, maxTotal, maxLookups := 4, 8, 3
		if !core.Quick() {
			maxPer, maxTotal, maxLookups = 6, 12, 4 // the thorough tier also runs larger crowds
		}
		ntasks := src.Range(2, maxPer)
		if totalTasks+ntasks > maxTotal {
			ntasks = 2
		}
		totalTasks += ntasks
		for t := 0; t < ntasks; t++ {
			var reqs []lookupReq
			for q, nq := 0, src.Range(1, maxLookups); q < nq; q++ {
				var m sw.ModVer
				switch src.Weighted(12, 1, 1) {
				case 0:
					m = mods[src.Intn(len(mods))]
				case 1:
					m = ghost
				default:
					m = sw.ModVer{Path: "private.example/secret/lib", Vers: "v1.0.0"}
				}
				v := m.Vers
				if src.Bool(1, 2) {
					v += "/go.mod"
				}
				reqs = append(reqs, lookupReq{m.Path, v})
			}
			spec.Tasks = append(spec.Tasks, reqs)
		}
		ci2 := w.NewClient(w.Machines[spec.Machine], r.s.NewGroup(), spec.Height, nil, 0)
		r.clients = append(r.clients, ci2)
		r.specs = append(r.specs, spec)
	}
	// benign behaviours
	nb := src.Weighted(3, 2, 1)
	for i := 0; i < nb; i++ {
		kinds := []string{"cache-read-error", "cache-write-dropped"}
		k := kinds[src.Intn(2)]
		class := "cache:write"
		if k == "cache-read-error" {
			class = []string{"cache:read:lookup", "cache:read:tile"}[src.Intn(2)]
		}
		w.Faults = append(w.Faults, &sw.Fault{Client: -1, Class: class, Occ: src.Intn(6), Kind: k})
	}
	// the real server signs with the real note package; register its heads as true heads lazily:
	// C14's hygiene oracles need a universe, built from the server's final record list after the run,
	// so online hygiene checks are deferred: collect and check at the end.
	type cw struct {
		c    *sw.ClientInfo
		file string
		data []byte
	}
	var cacheWrites []cw
	w.OnWriteCache = func(c *sw.ClientInfo, file string, data []byte) {
		cacheWrites = append(cacheWrites, cw{c, file, append([]byte(nil), data...)})
	}
	type cfw struct {
		c        *sw.ClientInfo
		old, new []byte
	}
	var cfgWrites []cfw
	w.OnWriteConfig = func(c *sw.ClientInfo, file string, old, new []byte) {
		cfgWrites = append(cfgWrites, cfw{c, append([]byte(nil), old...), append([]byte(nil), new...)})
	}

	for i, spec := range r.specs {
		r.startClient(spec, r.clients[i], "")
	}
	res.Logf("C14 run: height %d, %d modules (%d pre-logged, %d filler), %d clients, %d tasks, switch %d/%d", height, len(mods), pre, filler, nclients, totalTasks, r.s.SwitchNum, r.s.SwitchDen)
	r.finish(true)
	switches, schedule := r.s.Switches, r.scheduleSample(25)

	// second generation: in half of the runs the crowd's processes are gone and, on the cache and stored
	// head they left behind, a new process per machine repeats every lookup from two goroutines. The
	// same oracles apply to it (it is one more client that happens to start late).
	if res.Violation == nil && src.Bool(1, 2) {
		steps1, digest1 := res.Steps, res.Digest
		r.s = sched.New(src)
		w.StepFn = r.s.Steps
		r.s.SetShape(src.Intn(6))
		seenReq := map[string]bool{}
		var all []lookupReq
		for _, spec := range r.specs {
			for _, t := range spec.Tasks {
				for _, q := range t {
					if !seenReq[q.String()] {
						seenReq[q.String()] = true
						all = append(all, q)
					}
				}
			}
		}
		for mi := range w.Machines {
			spec := clientSpec{Machine: mi, Height: height, NoSumDB: c14NoSumLists[src.Weighted(5, 2, 2, 2, 1, 1, 1, 1)]}
			a := append([]lookupReq(nil), all...)
			b := make([]lookupReq, len(all))
			for i, j := range src.Perm(len(all)) {
				b[i] = all[j]
			}
			spec.Tasks = [][]lookupReq{a, b}
			totalTasks += 2
			ci := w.NewClient(w.Machines[mi], r.s.NewGroup(), height, nil, 0)
			r.clients = append(r.clients, ci)
			r.specs = append(r.specs, spec)
			r.startClient(spec, ci, "")
		}
		res.Logf("C14 second generation: %d new processes repeat %d lookups on the surviving cache and stored head", len(w.Machines), len(all))
		r.finish(true)
		res.Steps += steps1
		res.Digest = choice.Mix(digest1, res.Digest)
		switches += r.s.Switches
		res.Probes["second-generation-run"]++
	}

	// ---- oracles over the finished run ----
	// ground truth: the final server log, rebuilt with the reference implementation
	recs, err := rb.TS.ReadRecords(context.Background(), 0, serverSize(rb))
	if err != nil {
		core.SetHarnessError("c14: reading server records: " + err.Error())
		return res
	}
	u := sw.NewUniverse("server")
	perMod := map[string]int{}
	for _, rec := range recs {
		first := strings.SplitN(string(rec), " ", 3)
		if len(first) >= 2 {
			perMod[first[0]+"@"+first[1]]++
		}
		u.Records = append(u.Records, string(rec))
		u.Mods = append(u.Mods, sw.ModVer{})
		u.Tree.Append(rec)
	}
	w.Universes = []*sw.Universe{u}
	for k, n := range perMod {
		if n > 1 {
			res.Fail("C14", "server-one-record-per-module", "test server holds two records for one module", "module %s has %d records in the server log", k, n)
		}
	}
	for k, n := range rb.GosumCalls {
		_ = k
		_ = n
	}
	for _, m := range mods {
		text := rb.Known[m.Key()]
		expected[m.Path+" "+m.Vers] = expect{exists: true, lines: sw.Lines(text, m.Path, m.Vers)}
		expected[m.Path+" "+m.Vers+"/go.mod"] = expect{exists: true, lines: sw.Lines(text, m.Path, m.Vers+"/go.mod")}
	}
	for _, cwr := range cacheWrites {
		w.CheckCacheWrite("C14", cwr.c, cwr.file, cwr.data)
	}
	for _, c := range cfgWrites {
		w.CheckConfigWrite("C14", c.c, sw.ServerName+"/latest", c.old, c.new)
	}

	for ci, c := range r.clients {
		spec := r.specs[ci]
		allPrivate := true
		for ti := range spec.Tasks {
			outs := r.outcomes[r.slotOf[fmt.Sprintf("c%d.g%d", c.ID, ti)]]
			if len(outs) != len(spec.Tasks[ti]) && !r.s.Deadlock && !r.s.OverBudget && len(r.s.Panics) == 0 {
				res.Fail("C14", "all-lookups-finish", "a lookup goroutine did not finish", "client %d goroutine %d finished %d of %d lookups", c.ID, ti, len(outs), len(spec.Tasks[ti]))
			}
			for _, o := range outs {
				private := matchPrefixPatternsRef(spec.NoSumDB, o.Req.Path)
				if !private {
					allPrivate = false
				}
				switch {
				case private:
					if !errors.Is(o.Err, sumdb.ErrGONOSUMDB) {
						res.Fail("C14", "private-skipped", "private path not skipped", "client %d (GONOSUMDB=%q) Lookup(%s) returned lines=%q err=%v, want ErrGONOSUMDB", c.ID, spec.NoSumDB, o.Req, o.Lines, o.Err)
					}
				case rb.Known[o.Req.Path+"@"+strings.TrimSuffix(o.Req.Vers, "/go.mod")] == "":
					if o.Err == nil {
						res.Fail("C14", "unknown-module-fails", "lookup of a module the server does not have succeeded", "client %d Lookup(%s) = %q", c.ID, o.Req, o.Lines)
					} else if errors.Is(o.Err, sumdb.ErrSecurity) || strings.Contains(o.Err.Error(), sumdb.ErrSecurity.Error()) {
						res.Fail("C14", "no-security-error", "security error with an honest server", "client %d Lookup(%s): %v", c.ID, o.Req, o.Err)
					}
				default:
					want := expected[o.Req.Path+" "+o.Req.Vers]
					if o.Err != nil {
						res.Fail("C14", "honest-lookup-succeeds", "lookup failed with an honest server and cache", "client %d goroutine %d Lookup(%s) failed: %s", c.ID, o.Task, o.Req, firstLine(o.Err.Error()))
					} else if strings.Join(o.Lines, "\n") != strings.Join(want.lines, "\n") {
						res.Fail("C14", "exact-lines", "lookup returned lines other than the server's", "client %d Lookup(%s) = %q, server has %q", c.ID, o.Req, o.Lines, want.lines)
					}
				}
			}
		}
		if len(c.Security) > 0 {
			res.Fail("C14", "no-security-error", "security error with an honest server", "client %d: SecurityError called: %s", c.ID, firstLine(c.Security[0]))
		}
		// each distinct lookup fetched at most once per client
		for _, f := range sw.SortedKeys(c.CacheReads) {
			if strings.Contains(f, "/lookup/") && c.CacheReads[f] > 1 {
				res.Fail("C14", "fetch-once", "a lookup was fetched more than once by one client", "client %d read cache file %s %d times", c.ID, f, c.CacheReads[f])
			}
		}
		for _, p := range sw.SortedKeys(c.RemoteReads) {
			if strings.HasPrefix(p, "/lookup/") && c.RemoteReads[p] > 1 {
				res.Fail("C14", "fetch-once", "a lookup was fetched more than once by one client", "client %d fetched %s %d times", c.ID, p, c.RemoteReads[p])
			}
		}
		// private paths never cause an external operation
		priv := sw.EscapeRef("private.example/secret/lib")
		if matchPrefixPatternsRef(spec.NoSumDB, "private.example/secret/lib") {
			for _, m := range []map[string]int{c.CacheReads, c.RemoteReads} {
				for _, k := range sw.SortedKeys(m) {
					if strings.Contains(k, priv) {
						res.Fail("C14", "private-no-ops", "a private path caused an external operation", "client %d (GONOSUMDB=%q): external operation on %s", c.ID, spec.NoSumDB, k)
					}
				}
			}
			if allPrivate {
				total := 0
				for _, n := range c.Ops {
					total += n
				}
				if total > 0 {
					res.Fail("C14", "private-no-ops", "a private path caused an external operation", "client %d only looked up private paths (GONOSUMDB=%q) but performed %d external operations %v", c.ID, spec.NoSumDB, total, c.Ops)
				}
				res.Probes["client-with-only-private-lookups"]++
			}
		}
	}
	// shared latest head: never regresses, ends at the largest tree seen
	for _, m := range w.Machines {
		prev := int64(0)
		for i, cw := range m.ConfigWrites {
			text, ok := sw.ValidSignedHead(cw.New)
			n, _, _ := ref.ParseTreeText(text)
			if !ok {
				continue // reported by the hygiene oracle
			}
			if n < prev {
				res.Fail("C14", "head-never-regresses", "stored latest head moved backwards", "machine %d config write #%d by client %d: size %d after %d", m.ID, i, cw.Client, n, prev)
			}
			prev = n
		}
		largest := int64(0)
		for text := range m.SeenHeads {
			if n, _, ok := ref.ParseTreeText(text); ok && n > largest {
				largest = n
			}
		}
		final := int64(0)
		if text, ok := sw.ValidSignedHead(m.Config[sw.ServerName+"/latest"]); ok {
			final, _, _ = ref.ParseTreeText(text)
		}
		if res.Violation == nil && final != largest {
			res.Fail("C14", "head-ends-at-largest", "stored latest head is not the largest tree seen", "machine %d: stored head has size %d but a signed head of size %d was delivered to its clients", m.ID, final, largest)
		}
	}
	// probes
	c14Probes(r, res)
	res.Sig = choice.Mix(res.Digest, choice.MixString(fmt.Sprint(height, len(mods), nclients)))
	res.Trivial = switches == 0 || totalTasks < 2
	var keys []string
	for _, spec := range r.specs {
		for _, t := range spec.Tasks {
			for _, q := range t {
				keys = append(keys, q.String())
			}
		}
	}
	sort.Strings(keys)
	res.Sample = map[string]interface{}{"tile_height": height, "clients": nclients, "goroutines": totalTasks, "lookups": keys, "server_records": len(recs),
		"scheduler_steps": res.Steps, "context_switches": switches, "schedule_head": schedule}
	return res
}

func serverSize(rb *sw.RealBackend) int64 {
	// binary probe of the record count through the public ServerOps
	n := int64(0)
	for {
		if _, err := rb.TS.ReadRecords(context.Background(), n, 1); err != nil {
			return n
		}
		n++
	}
}

// c14Probes derives rare-interleaving probes from the schedule.
func c14Probes(r *sumRun, res *core.Result) {
	// install window: a task of client X took a step at latestMu#3 (read latest) and, before its
	// step at latestMu#4 (install), another task of the same client ran.
	inWindow := map[string]bool{}
	for _, st := range r.s.Trace {
		owner := strings.SplitN(st.Name, ".", 2)[0]
		for k := range inWindow {
			if k != st.Name && strings.HasPrefix(k, owner+".") {
				res.Probes["switch-inside-install-window"]++
				delete(inWindow, k)
			}
		}
		switch {
		case strings.HasPrefix(st.Label, "latestMu#3"):
			inWindow[st.Name] = true
		case strings.HasPrefix(st.Label, "latestMu#4"):
			delete(inWindow, st.Name)
		}
	}
	for _, st := range r.s.Trace {
		if st.Label == "parCache" {
			res.Probes["parCache-lock-step"]++
			break
		}
	}
}

func init() {
	core.Register(&core.Prop{
		ID:        "C14",
		Entries:   []core.Entry{{Name: "explore", Run: c14Explore}},
		Explore:   []string{"explore"},
		NeedsRace: true,
		Rule: "explore: seeded honest world (real Server+TestServer whose log grows on demand), 1-3 clients x 2-4 goroutines on 1-2 machines, 1-3 lookups each over 2-7 colliding modules (+/go.mod, upper-case, unknown, private), tile height 1-8, GONOSUMDB lists, benign cache behaviours; every scheduling decision from the tape; in half of the runs a second generation follows (the crowd's processes are gone, a new process per machine repeats every lookup from two goroutines on the surviving cache and stored head) under the same oracles. " +
			"Distinct = distinct (task, hook-label) schedule digest; non-trivial = at least two lookup goroutines and at least one context switch.",
		Real:        []string{"sumdb.Client incl. parCache, mergeLatest/mergeLatestMem/checkTrees, tileReader.ReadTiles goroutines", "tlog tile/hash/proof code", "note.Open/Sign", "module.Escape*/MatchPrefixPatterns", "sumdb.Server.ServeHTTP", "sumdb.TestServer"},
		Stub:        []string{"ClientOps: network (in-memory HTTP recorder), cache, config compare-and-swap register, Log/SecurityError sinks", "goroutine scheduler (cooperative, tape-driven)", "gosum callback"},
		Assumptions: []string{"interleavings are explored at hook granularity (every Mutex.Lock, Once, spawn/wait and ClientOps call); unsynchronised accesses between hooks are covered by the race detector, not by schedule enumeration", "the world mutex adds happens-before edges between tasks at ClientOps calls; it can hide a race in some interleavings, never invent one"},
	})
	core.ExpectProbes("C14", "switch-inside-install-window", "WriteConfig-conflict", "parCache-lock-step", "client-with-only-private-lookups", "second-generation-run")
}
