package props

import (
	"bytes"
	"fmt"
	"math/bits"
	"sort"
	"strings"

	"golang.org/x/mod/sumdb/tlog"

	"verif/sim/choice"
	"verif/sim/core"
	"verif/sim/ref"
)

// C10: hashes read through tiles are authenticated against the tree head.
//
// Simulated: the tile publisher (a static store filled only with the tiles
// tlog.NewTiles names for each growth step, content from the reference tree),
// the TileReader seam (which serves true or faulted tiles and records what
// is handed to SaveTiles). Real: tlog.TileHashReader, HashFromTile,
// NewTiles, Tile.Path, ParseTilePath.

type c10Fault struct {
	Ord  uint64 // which fetched tile (mod number of tiles in the read)
	Kind int
	A, B uint64
}

var c10FaultNames = []string{"bitflip", "swap-hashes", "dup-hash", "other-tile", "truncate", "extend", "zero", "drop-result", "extra-result", "random-hash"}

type c10Params struct {
	H       int
	Steps   []int64 // growth steps; last is the tree size
	Seed    uint64  // leaf content seed
	Indexes []uint64
	Faults  []c10Fault
	// More holds further reads issued on the SAME TileHashReader after the first.
	More    []c10Read
	PathSrc []uint64
}

type c10Read struct {
	Indexes []uint64
	Faults  []c10Fault
}

func c10Leaf(seed uint64, i int64) []byte {
	return []byte(fmt.Sprintf("example.com/m%d v1.%d.0 h1:%016x\n", i%7, i, choice.Mix(seed, uint64(i))))
}

type c10Reader struct {
	p         *c10Params
	res       *core.Result
	tree      *ref.Tree
	published map[string]bool
	N         int64
	faults    []c10Fault
	idx       []int64
	delivered int // number of tiles served with content different from the true tile
	countBad  bool
	saved     int
	reads     int
	// recycle: the reader owns the buffers it hands out and uses them again for its next call (nothing
	// says the data stay valid after that): what an earlier ReadTiles returned is overwritten when the
	// next one starts
	recycle bool
	arena   [][]byte
}

func (r *c10Reader) Height() int { return r.p.H }

func trueTile(t *ref.Tree, tile tlog.Tile) []byte {
	return t.TileData(tile.H, tile.L, tile.N, tile.W)
}

func (r *c10Reader) ReadTiles(tiles []tlog.Tile) (out [][]byte, err error) {
	defer func() {
		if e := recover(); e != nil {
			core.SetHarnessError(fmt.Sprintf("c10 ReadTiles seam panicked: %v", e))
			out, err = nil, fmt.Errorf("harness panic")
		}
		// accumulated over every ReadTiles call of one ReadHashes (the caller resets both before the read):
		// a reader may fetch in several rounds, or fetch a tile again
		r.countBad = r.countBad || err == nil && len(out) != len(tiles)
		for i := range out {
			if i < len(tiles) && !bytes.Equal(out[i], trueTile(r.tree, tiles[i])) {
				r.delivered++
			}
		}
	}()
	r.reads++
	res := r.res
	if r.recycle {
		for _, b := range r.arena {
			for k := range b {
				b[k] = 0xA5
			}
		}
		r.arena = r.arena[:0]
		defer func() { r.arena = append(r.arena, out...) }()
	}
	data := make([][]byte, len(tiles))
	for i, t := range tiles {
		p := t.Path()
		if !r.published[p] {
			res.Fail("C10", "publish-sufficient", "tile requested but never named by NewTiles",
				"tree size %d height %d: read requested tile %s which NewTiles never told the publisher to publish (steps %v)", r.N, r.p.H, p, r.p.Steps)
		}
		if back, err := tlog.ParseTilePath(p); err != nil || back != t {
			res.Fail("C10", "path-roundtrip", "ParseTilePath(Path(t)) != t", "tile %+v path %q parses to %+v, %v", t, p, back, err)
		}
		if t.H != r.p.H || t.L < 0 || t.W < 1 || t.W > 1<<uint(t.H) || (t.N<<uint(t.H)+int64(t.W))<<uint(t.H*t.L) > r.N {
			res.Fail("C10", "tile-in-tree", "requested tile outside tree", "tile %+v not inside tree of size %d", t, r.N)
			data[i] = make([]byte, t.W*32)
			continue
		}
		data[i] = trueTile(r.tree, t)
	}
	// D1 condition probe: fewer distinct tree-hash tiles than tree-hash subtrees and extra tiles present.
	stage1 := c10Stage1Tiles(r.p.H, r.N)
	if stage1 < bits.OnesCount64(uint64(r.N)) && len(tiles) > stage1 {
		res.Probes["child-tile-before-len(stx)"]++
	}
	if len(tiles) > stage1 {
		res.Probes["read-with-child-tiles"]++
	}
	for _, f := range r.faults {
		if len(tiles) == 0 {
			break
		}
		i := int(f.Ord % uint64(len(tiles)))
		t := tiles[i]
		truth := trueTile(r.tree, t)
		name := c10FaultNames[f.Kind]
		if i >= len(data) && name != "extra-result" {
			continue // that result was dropped by an earlier fault
		}
		var d []byte
		if i < len(data) {
			d = append([]byte(nil), data[i]...)
		}
		switch name {
		case "bitflip":
			if len(d) > 0 {
				pos := f.A % uint64(len(d)*8)
				d[pos/8] ^= 1 << (pos % 8)
			}
		case "swap-hashes":
			if w := len(d) / 32; w >= 2 {
				a, b := int(f.A%uint64(w)), int(f.B%uint64(w))
				var tmp [32]byte
				copy(tmp[:], d[a*32:])
				copy(d[a*32:a*32+32], d[b*32:b*32+32])
				copy(d[b*32:b*32+32], tmp[:])
			}
		case "dup-hash":
			if w := len(d) / 32; w >= 2 {
				a, b := int(f.A%uint64(w)), int(f.B%uint64(w))
				copy(d[b*32:b*32+32], d[a*32:a*32+32])
			}
		case "other-tile":
			// content of a different tile of the same width if one exists in the tree, else of a forged tree
			alt := t
			alt.N = t.N ^ 1
			if (alt.N<<uint(alt.H)+int64(alt.W))<<uint(alt.H*alt.L) <= r.N {
				d = trueTile(r.tree, alt)
			} else if t.N > 0 {
				alt.N = t.N - 1
				d = trueTile(r.tree, alt)
			} else {
				for k := range d {
					d[k] = byte(choice.Mix(f.A, uint64(k)))
				}
			}
		case "truncate":
			if len(d) > 0 {
				d = d[:int(f.A%uint64(len(d)))]
			}
		case "extend":
			extra := 1 + int(f.A%64)
			for k := 0; k < extra; k++ {
				d = append(d, byte(choice.Mix(f.B, uint64(k))))
			}
		case "zero":
			for k := range d {
				d[k] = 0
			}
		case "random-hash":
			if w := len(d) / 32; w >= 1 {
				a := int(f.A % uint64(w))
				for k := 0; k < 32; k++ {
					d[a*32+k] = byte(choice.Mix(f.B, uint64(k)))
				}
			}
		case "drop-result", "extra-result":
			// handled below on the result slice
		}
		if name == "drop-result" {
			if len(data) == 0 {
				continue
			}
			data = data[:len(data)-1]
			res.Faults[name]++
			res.Logf("fault %s: returned %d results for %d tiles", name, len(data), len(tiles))
			continue
		}
		if name == "extra-result" {
			data = append(data, make([]byte, 32))
			res.Faults[name]++
			res.Logf("fault %s: returned %d results for %d tiles", name, len(data), len(tiles))
			continue
		}
		if i < len(data) {
			if !bytes.Equal(d, truth) {
				res.Faults[name]++
				res.Logf("fault %s on fetched tile #%d %s (len %d -> %d)", name, i, t.Path(), len(truth), len(d))
			}
			data[i] = d
		}
	}
	return data, nil
}

func (r *c10Reader) SaveTiles(tiles []tlog.Tile, data [][]byte) {
	for i, t := range tiles {
		r.saved++
		if i >= len(data) || !bytes.Equal(data[i], trueTile(r.tree, t)) {
			r.res.Fail("C10", "saved-tile-true", "tile handed to SaveTiles differs from the true tile",
				"tree size %d height %d indexes %v: SaveTiles got tile %s whose data is not the true tile (position %d of %d in the read, %d tree-hash tiles, %d tree-hash subtrees)",
				r.N, r.p.H, r.idx, t.Path(), i, len(tiles), c10Stage1Tiles(r.p.H, r.N), bits.OnesCount64(uint64(r.N)))
		}
	}
}

// c10Stage1Tiles counts, from the tree shape alone, the distinct tiles that
// hold the complete subtrees making up the tree hash of a tree of size n.
func c10Stage1Tiles(h int, n int64) int {
	seen := map[[2]int64]bool{}
	for l := 0; l < 63; l++ {
		if n>>uint(l)&1 == 0 {
			continue
		}
		o := n>>uint(l) - 1 // offset of that complete subtree at level l
		L := l / h
		tn := o << uint(l-L*h) >> uint(h)
		seen[[2]int64{int64(L), tn}] = true
	}
	return len(seen)
}

func runC10(p *c10Params) *core.Result {
	res := core.NewResult()
	N := p.Steps[len(p.Steps)-1]
	tree := ref.NewTree()
	for i := int64(0); i < N; i++ {
		tree.Append(c10Leaf(p.Seed, i))
	}
	pub := map[string]bool{}
	old := int64(0)
	for _, s := range p.Steps {
		for _, t := range tlog.NewTiles(p.H, old, s) {
			pub[t.Path()] = true
			if t.H != p.H || t.W < 1 || t.W > 1<<uint(p.H) || (t.N<<uint(t.H)+int64(t.W))<<uint(t.H*t.L) > s {
				res.Fail("C10", "newtiles-in-tree", "NewTiles names a tile outside the new tree", "NewTiles(%d,%d,%d) names %+v", p.H, old, s, t)
			}
		}
		old = s
	}
	cnt := ref.StoredCount(N)
	rd := &c10Reader{p: p, res: res, tree: tree, published: pub, N: N, recycle: p.Seed>>7&3 == 0}
	if rd.recycle {
		res.Probes["tile-reader-recycles-its-buffers"]++
	}
	root := tree.MTH(N)
	reader := tlog.TileHashReader(tlog.Tree{N: N, Hash: tlog.Hash(root)}, rd)
	reads := append([]c10Read{{Indexes: p.Indexes, Faults: p.Faults}}, p.More...)
	anyFault := false
	var idx []int64
	var err error
	for ri, rdp := range reads {
		idx = make([]int64, len(rdp.Indexes))
		for i, x := range rdp.Indexes {
			idx[i] = int64(x % uint64(cnt))
		}
		rd.faults, rd.idx, rd.delivered, rd.countBad = rdp.Faults, idx, 0, false
		res.Logf("read %d: tree N=%d H=%d steps=%v indexes=%v faults=%d", ri, N, p.H, p.Steps, idx, len(rdp.Faults))
		var hashes []tlog.Hash
		err = nil
		func() {
			defer func() {
				if e := recover(); e != nil {
					res.Fail("C10", "no-panic", "ReadHashes panicked", "tree %d height %d indexes %v: panic: %v", N, p.H, idx, e)
					err = fmt.Errorf("panic")
				}
			}()
			hashes, err = reader.ReadHashes(idx)
		}()
		faulted := rd.delivered > 0 || rd.countBad
		anyFault = anyFault || faulted
		if err == nil {
			if len(hashes) != len(idx) {
				res.Fail("C10", "result-count", "wrong number of hashes", "asked %d got %d", len(idx), len(hashes))
			}
			for i := range hashes {
				if i < len(idx) && ref.Hash(hashes[i]) != tree.StoredHash(idx[i]) {
					l, o := ref.StoredCoord(idx[i])
					res.Fail("C10", "returned-hash-true", "read succeeded with a hash that is not the true stored hash",
						"tree size %d height %d: read #%d ReadHashes(%v) returned a wrong hash for index %d (level %d offset %d); faults fired: %v", N, p.H, ri, idx, idx[i], l, o, res.Faults)
				}
			}
			if rd.countBad {
				// not a violation by itself: the hashes returned were checked to be the true ones (a reader
				// may ask again after a malformed answer)
				res.Probes["read-succeeded-after-wrong-result-count"]++
			}
			if faulted {
				res.Probes["faulted-read-succeeded-with-true-hashes"]++
			}
		} else {
			res.Logf("read failed: %v", err)
			if !faulted && res.Violation == nil {
				res.Fail("C10", "honest-succeeds", "honest tiles rejected", "tree size %d height %d: read #%d indexes %v: all tiles served truthfully but ReadHashes failed: %v", N, p.H, ri, idx, err)
			}
			if faulted {
				res.Probes["faulted-read-rejected"]++
			}
			if strings.Contains(err.Error(), "bad math") {
				res.Fail("C10", "internal-error", "internal error reported", "tree %d height %d indexes %v: %v", N, p.H, idx, err)
			}
		}
		if ri > 0 {
			res.Probes["later-read-on-same-reader"]++
		}
	}
	// the empty tree: the only position set is the empty one and the true answer is the empty list
	// (tlog.StoredHashes(0, ...) reads exactly that when the first record is appended through tiles)
	if res.Violation == nil && p.Seed>>9&7 == 0 {
		empty := &c10Reader{p: p, res: res, tree: ref.NewTree(), published: map[string]bool{}, N: 0}
		func() {
			defer func() {
				if e := recover(); e != nil {
					res.Fail("C10", "no-panic", "ReadHashes panicked", "empty tree, height %d, no indexes: panic: %v", p.H, e)
				}
			}()
			hs, err := tlog.TileHashReader(tlog.Tree{N: 0, Hash: tlog.Hash(ref.NewTree().MTH(0))}, empty).ReadHashes(nil)
			if err != nil || len(hs) != 0 {
				res.Fail("C10", "honest-succeeds", "honest read failed", "empty tree, height %d, no indexes: got %d hashes, %v", p.H, len(hs), err)
			}
		}()
		res.Probes["empty-tree-read"]++
	}
	res.Steps = rd.reads + rd.saved
	faulted := anyFault

	// tile path bijection on mutated paths
	for i := 0; i+1 < len(p.PathSrc); i += 2 {
		c10PathLaws(res, p.PathSrc[i], p.PathSrc[i+1])
		pth := c10MutatePath(p.H, p.PathSrc[i], p.PathSrc[i+1])
		if t, err := tlog.ParseTilePath(pth); err == nil {
			if t.Path() != pth {
				res.Fail("C10", "path-bijection", "ParseTilePath accepts a non-canonical path", "ParseTilePath(%q) = %+v whose Path() is %q", pth, t, t.Path())
			}
			if t.H < 1 || t.H > 30 || t.L < -1 || t.L > 63 || t.N < 0 || t.W < 1 || t.W > 1<<uint(t.H) {
				res.Fail("C10", "path-bijection", "ParseTilePath returns an invalid tile", "ParseTilePath(%q) = %+v", pth, t)
			}
			res.Probes["mutated-path-accepted"]++
		} else {
			res.Probes["mutated-path-rejected"]++
		}
	}

	sort.Slice(idx, func(i, j int) bool { return idx[i] < idx[j] })
	fk := []string{}
	for k := range res.Faults {
		fk = append(fk, k)
	}
	sort.Strings(fk)
	res.Sig = choice.MixString(fmt.Sprintf("%d/%d/%v/%v/%v", p.H, N, idx, fk, err == nil))
	res.Trivial = N < 2 || !faulted && len(idx) == 0
	res.Sample = map[string]interface{}{"height": p.H, "tree_size": N, "growth_steps": p.Steps, "indexes": idx, "faults_fired": res.Faults, "read_ok": err == nil}
	return res
}

// c10PathLaws checks, for a generated valid tile, that its path parses back
// to the same tile and that neighbouring coordinates get different paths.
func c10PathLaws(res *core.Result, a, b uint64) {
	t := c10GenTile(a, b)
	p := t.Path()
	back, err := tlog.ParseTilePath(p)
	if err != nil || back != t {
		res.Fail("C10", "path-roundtrip", "ParseTilePath(Path(t)) != t", "tile %+v has path %q which parses to %+v, %v", t, p, back, err)
	}
	others := []tlog.Tile{t, t, t, t, t, t}
	others[0].N = t.N / 1000
	others[1].N = t.N % 1000
	others[2].N = t.N * 1000
	others[3].N = t.N + 1000
	others[4].L = t.L + 1
	others[5].W = t.W%(1<<uint(t.H)) + 1
	for _, o := range others {
		if o != t && o.Path() == p {
			res.Fail("C10", "path-injective", "two different tiles share a path", "tiles %+v and %+v both have path %q", t, o, p)
		}
	}
}

// c10GenTile derives a valid tile, biased to digit-group boundaries of N.
func c10GenTile(a, b uint64) tlog.Tile {
	t := tlog.Tile{H: 1 + int(a%10), L: int(a >> 8 % 6)}
	if a>>40%4 == 0 {
		t.L = -1
	}
	t.W = 1 + int(a>>44%uint64(1<<uint(t.H)))
	switch b % 5 {
	case 0:
		t.N = int64(b >> 8 % 1000)
	case 1:
		t.N = int64(b >> 8 % 3000000)
	case 2: // exact powers of 1000 and neighbours
		pow := []int64{1000, 1000000, 1000000000, 1000000000000}[b>>8%4]
		t.N = pow*int64(1+b>>12%3) + int64(b>>16%3) - 1
	case 3:
		t.N = int64(b >> 8 % (1 << 40))
	default:
		t.N = int64(b>>8%1000) * 1000
	}
	return t
}

// c10MutatePath builds a tile path that is usually almost valid.
func c10MutatePath(h int, a, b uint64) string {
	t := tlog.Tile{H: 1 + int(a%10), L: int(a >> 8 % 5), N: int64(a >> 16 % 3000000), W: 1}
	if a>>40%3 == 0 {
		t.L = -1
	}
	t.W = 1 + int(a>>44%uint64(1<<uint(t.H)))
	s := t.Path()
	switch b % 12 {
	case 0:
		if t.L >= 0 && b>>8%3 == 0 { // a level no tile has (documented: -1 <= L <= 63)
			return strings.Replace(s, fmt.Sprintf("tile/%d/%d/", t.H, t.L), fmt.Sprintf("tile/%d/%d/", t.H, []int{64, 65, 1000000, 1 << 62}[b>>12%4]), 1)
		}
		return s
	case 1: // leading zero in height
		return strings.Replace(s, "tile/", "tile/0", 1)
	case 2: // W = 0
		return s + ".p/0"
	case 3: // W = full written as partial
		return strings.TrimSuffix(s, fmt.Sprintf(".p/%d", t.W)) + fmt.Sprintf(".p/%d", 1<<uint(t.H))
	case 4: // plus sign
		return strings.Replace(s, "tile/", "tile/+", 1)
	case 5: // missing x
		return strings.Replace(s, "/x", "/", 1)
	case 6: // extra x on last element
		i := strings.LastIndex(s, "/")
		return s[:i+1] + "x" + s[i+1:]
	case 7: // trailing slash
		return s + "/"
	case 8: // 4-digit element
		i := strings.LastIndex(s, "/")
		return s[:i+1] + "0" + s[i+1:]
	case 9: // negative level
		return strings.Replace(s, "/data/", "/-1/", 1)
	case 10: // leading x000
		parts := strings.SplitN(s, "/", 4)
		if len(parts) == 4 {
			return parts[0] + "/" + parts[1] + "/" + parts[2] + "/x000/" + parts[3]
		}
		return s
	default: // byte mutation
		bs := []byte(s)
		i := int(b >> 8 % uint64(len(bs)))
		bs[i] = "0123456789x/.p-+ "[b>>20%17]
		return string(bs)
	}
}

func c10Explore(src *choice.Src) *core.Result {
	p := &c10Params{}
	hsel := src.Weighted(6, 3, 1) // 0: 1..4, 1: 5..8, 2: 9..10
	switch hsel {
	case 0:
		p.H = src.Range(1, 4)
	case 1:
		p.H = src.Range(5, 8)
	default:
		p.H = src.Range(9, 10)
	}
	maxN := 300
	if !core.Quick() && p.H >= 5 {
		maxN = 2000
	}
	if src.Bool(1, 3) {
		maxN = 40
	}
	nsteps := src.Range(1, 4)
	var cur int64
	for i := 0; i < nsteps; i++ {
		cur += int64(src.Range(1, maxN/nsteps+1))
		p.Steps = append(p.Steps, cur)
	}
	p.Seed = src.Uint64n(1 << 16)
	for i, n := 0, src.Range(1, 6); i < n; i++ {
		p.Indexes = append(p.Indexes, src.Raw())
	}
	nf := src.Weighted(2, 5, 2, 1)
	for i := 0; i < nf; i++ {
		p.Faults = append(p.Faults, c10Fault{Ord: src.Raw(), Kind: src.Pick(len(c10FaultNames)), A: src.Raw(), B: src.Raw()})
	}
	for i := 0; i < 4; i++ {
		p.PathSrc = append(p.PathSrc, src.Raw())
	}
	for i, n := 0, src.Weighted(5, 3, 2); i < n; i++ {
		var r c10Read
		// reuse an earlier index half of the time so that the same tiles are read again
		for j, m := 0, src.Range(1, 4); j < m; j++ {
			if src.Bool(1, 2) {
				r.Indexes = append(r.Indexes, p.Indexes[src.Intn(len(p.Indexes))])
			} else {
				r.Indexes = append(r.Indexes, src.Raw())
			}
		}
		for j, m := 0, src.Weighted(2, 4, 1); j < m; j++ {
			r.Faults = append(r.Faults, c10Fault{Ord: src.Raw(), Kind: src.Pick(len(c10FaultNames)), A: src.Raw(), B: src.Raw()})
		}
		p.More = append(p.More, r)
	}
	return runC10(p)
}

// c10Sweep reads an explicit case: H, N, index, tile ordinal, kind, A, B.
func c10SweepRun(src *choice.Src) *core.Result {
	p := &c10Params{}
	p.H = 1 + src.Intn(8)
	n := int64(1 + src.Intn(4096))
	p.Steps = []int64{n}
	split := src.Bool(1, 2)
	if half := n / 2; half > 0 && split {
		p.Steps = []int64{half, n}
	}
	p.Seed = 7
	p.Indexes = []uint64{src.Raw()}
	kind := src.Intn(len(c10FaultNames) + 1)
	ord, a, b := src.Raw(), src.Raw(), src.Raw()
	var faults []c10Fault
	if kind > 0 {
		faults = []c10Fault{{Ord: ord, Kind: kind - 1, A: a, B: b}}
	}
	if src.Bool(1, 2) {
		// an honest read of the same index first, then the faulted read on the same reader
		p.More = []c10Read{{Indexes: p.Indexes, Faults: faults}}
	} else {
		p.Faults = faults
	}
	return runC10(p)
}

func c10Enumerate(quick bool, seed uint64, shard, nshards int, emit func([]uint64) bool) bool {
	maxH, maxN := 4, 64
	if quick {
		maxH, maxN = 3, 26
	}
	k := 0
	for h := 1; h <= maxH; h++ {
		for n := 1; n <= maxN; n++ {
			cnt := int(ref.StoredCount(int64(n)))
			for idx := 0; idx < cnt; idx++ {
				k++
				if k%nshards != shard {
					continue
				}
				// honest read
				if !emit([]uint64{uint64(h - 1), uint64(n - 1), 0, uint64(idx), 0}) {
					return false
				}
				// number of tiles is not known here: ordinals 0..5 cover every tile of such small reads
				// (reads of one index in trees this small fetch at most ~6 tiles); ordinals beyond the
				// count wrap around and repeat a case, which is harmless.
				for ord := 0; ord < 6; ord++ {
					for kind := 1; kind <= len(c10FaultNames); kind++ {
						name := c10FaultNames[kind-1]
						if name == "drop-result" || name == "extra-result" {
							if ord > 0 {
								continue
							}
						}
						// two positions per kind: first and a later one
						for _, a := range []uint64{0, 37 + seed%200} {
							for pre := uint64(0); pre < 2; pre++ {
								if !emit([]uint64{uint64(h - 1), uint64(n - 1), 0, uint64(idx), uint64(kind), uint64(ord), a, a/3 + 1, pre}) {
									return false
								}
							}
						}
					}
				}
			}
		}
	}
	return true
}

func init() {
	core.Register(&core.Prop{
		ID: "C10",
		Entries: []core.Entry{
			{Name: "explore", Run: c10Explore},
			{Name: "sweep", Run: c10SweepRun},
		},
		Explore: []string{"explore"},
		Sweeps: []core.Sweep{{Name: "single-fault-placement", Entry: "sweep", Enumerate: c10Enumerate,
			Space: "heights 1..4 (quick 1..3) x tree sizes 1..64 (quick 1..26) x every single stored-hash index x {honest, each of the first 6 fetched tiles x each corruption kind x 2 positions x {fresh reader, after an honest read on the same reader}}"}},
		Rule:        "explore: seeded (height 1..10, 1-4 growth steps up to 300/2000 records, 1-6 stored-hash positions, 0-3 tile faults of 10 kinds, 0-2 further reads on the same reader); sweep: placed single faults. Distinct = distinct (height, size, index set, fault kinds fired, outcome); non-trivial = tree size >= 2 and (a fault was delivered or at least one index was read).",
		Real:        []string{"tlog.TileHashReader.ReadHashes", "tlog.HashFromTile", "tlog.TileForIndex", "tlog.NewTiles", "tlog.Tile.Path", "tlog.ParseTilePath"},
		Stub:        []string{"TileReader (tile server + network + SaveTiles sink)", "tile publisher store", "reference RFC 6962 tree (oracle)"},
		Assumptions: []string{"SHA-256 collision resistance (a corrupted tile never hashes to the true value)", "reference Merkle implementation in sim/ref is correct (cross-checked against a naive recursion in selftest)"},
	})
}
