package props

import (
	"bytes"
	"crypto/ed25519"
	"encoding/base64"
	"encoding/binary"
	"errors"
	"fmt"
	"strings"
	"sync"

	"golang.org/x/mod/sumdb/note"

	"verif/sim/choice"
	"verif/sim/core"
	"verif/sim/ref"
)

// C07: a signed note opens only with verified signatures over exactly its text.
//
// Scenario: a cosigning chain. An origin signs a text; 0-4 witnesses each
// receive the message over a corrupting transport into a reusable receive
// buffer, Open it with their own trust set and, if that works, Sign it again;
// a final reader opens the result. note.Verifiers, note.Verifier and
// note.Signer are interfaces the simulator implements (spies wrapping the
// real ed25519 verifiers/signers, verdict-decided fakes, failing signers,
// a Verifiers that errs or returns the wrong verifier). Every Open and Sign
// is compared with a reference implementation of the documented format.

var c07Keys = []*ref.Key{
	ref.NewKey("log.example/a", 11),
	ref.NewKey("log.example/a", 12), // same name, different key
	ref.NewKey("wit.example/w1", 13),
	ref.NewKey("Ωmega.example/ключ", 14),
	ref.NewKey("x", 15),
}

type c07VerifyCall struct {
	name   string
	hash   uint32
	msg    string
	sig    string
	result bool
}

// spyVerifier wraps a real verifier, or decides the verdict itself.
type spyVerifier struct {
	name    string
	hash    uint32
	inner   note.Verifier // nil: verdict decided by the simulator
	verdict bool
	calls   *[]c07VerifyCall
}

func (v *spyVerifier) Name() string    { return v.name }
func (v *spyVerifier) KeyHash() uint32 { return v.hash }

// c07Mu guards what the simulated verifiers record: nothing says that Open calls them from one goroutine.
var c07Mu sync.Mutex

func (v *spyVerifier) Verify(msg, sig []byte) bool {
	r := v.verdict
	if v.inner != nil {
		r = v.inner.Verify(msg, sig)
	}
	c07Mu.Lock()
	*v.calls = append(*v.calls, c07VerifyCall{v.name, v.hash, string(msg), string(sig), r})
	c07Mu.Unlock()
	return r
}

// trustEntry is one entry of an opener's trust set.
type trustEntry struct {
	key     *ref.Key // real key, or nil for a fake
	name    string
	hash    uint32
	verdict bool // fakes only
	mode    int  // 0 normal, 1 Verifiers returns a non-Unknown error, 2 Verifiers returns a verifier with another identity
}

type simVerifiers struct {
	entries []trustEntry
	vs      []note.Verifier
	lookups int
	// unknownStyle: how the "unknown key" answer is spelled. The interface only asks for an
	// UnknownVerifierError; it does not promise that its fields echo the query.
	unknownStyle int
}

var c07UnknownSentinel = &note.UnknownVerifierError{}

var errSimVerifiers = errors.New("simulated Verifiers failure")

func (s *simVerifiers) Verifier(name string, hash uint32) (note.Verifier, error) {
	c07Mu.Lock()
	s.lookups++
	c07Mu.Unlock()
	var found []int
	for i, e := range s.entries {
		if e.name == name && e.hash == hash {
			found = append(found, i)
		}
	}
	if len(found) == 0 {
		switch s.unknownStyle {
		case 1:
			return nil, c07UnknownSentinel // one shared zero-valued error
		case 2:
			return nil, &note.UnknownVerifierError{Name: strings.ToLower(name) + ".normalised", KeyHash: hash ^ 1}
		}
		return nil, &note.UnknownVerifierError{Name: name, KeyHash: hash}
	}
	e := s.entries[found[0]]
	switch e.mode {
	case 1:
		return nil, errSimVerifiers
	case 2:
		// some other verifier of the set (wrong identity)
		for i, o := range s.entries {
			if o.name != name || o.hash != hash {
				return s.vs[i], nil
			}
		}
		return &spyVerifier{name: name + "x", hash: hash, verdict: true, calls: new([]c07VerifyCall)}, nil
	}
	return s.vs[found[0]], nil
}

type c07Expect struct {
	fail       bool
	why        string
	text       string
	sigs       []note.Signature
	unverified []note.Signature
	unverErr   bool // failure must be UnverifiedNoteError carrying the unverified note
}

// c07Reference computes what Open must do with msg for the given trust set,
// from the documented format alone. useList: the set is a note.VerifierList
// (duplicates are ambiguous); otherwise the first matching entry answers.
func c07Reference(msg []byte, entries []trustEntry, useList bool) c07Expect {
	pn, ok := ref.ParseNote(msg)
	if !ok {
		return c07Expect{fail: true, why: "malformed"}
	}
	if len(pn.Sigs) > 100 {
		return c07Expect{fail: true, why: "more than 100 signature lines"}
	}
	exp := c07Expect{text: pn.Text}
	seenKnown := map[string]bool{}
	seenUnknown := map[string]bool{}
	for _, s := range pn.Sigs {
		var found []trustEntry
		for _, e := range entries {
			if e.name == s.Name && e.hash == s.Hash {
				found = append(found, e)
			}
		}
		if len(found) == 0 {
			line := s.Name + " " + s.Base64
			if !seenUnknown[line] {
				seenUnknown[line] = true
				exp.unverified = append(exp.unverified, note.Signature{Name: s.Name, Hash: s.Hash, Base64: s.Base64})
			}
			continue
		}
		if useList && len(found) > 1 {
			return c07Expect{fail: true, why: "ambiguous key"}
		}
		e := found[0]
		if e.mode == 1 {
			return c07Expect{fail: true, why: "Verifiers error"}
		}
		if e.mode == 2 {
			return c07Expect{fail: true, why: "Verifiers returned a verifier of another identity"}
		}
		k := fmt.Sprintf("%s+%08x", s.Name, s.Hash)
		good := e.verdict
		if e.key != nil {
			good = len(s.Sig) == ed25519.SignatureSize && ed25519.Verify(e.key.Pub, []byte(pn.Text), s.Sig)
		}
		if !good {
			// "for each signature in the message": a repeated signature line of a known key is no exception
			return c07Expect{fail: true, why: fmt.Sprintf("known key %s has a bad signature", k)}
		}
		if seenKnown[k] {
			continue // a further good signature by the same key is listed once
		}
		seenKnown[k] = true
		exp.sigs = append(exp.sigs, note.Signature{Name: s.Name, Hash: s.Hash, Base64: s.Base64})
	}
	if len(exp.sigs) == 0 {
		exp.fail, exp.why, exp.unverErr = true, "no signature by a known key", true
	}
	return exp
}

func sigsEqual(a, b []note.Signature) bool {
	if len(a) != len(b) {
		return false
	}
	for i := range a {
		if a[i] != b[i] {
			return false
		}
	}
	return true
}

var c07TextAtoms = []string{"hello\n", "go.sum database tree\n", "42\n", "\n", "— fake AAAAAAAA\n", "— log.example/a AAAABBBBCCCC\n", "héllo wörld\n", "世界\n", "tab is not allowed? no: spaces   \n", "a", " ", "=", "+", "\n\n", "line\n",
	"replacement \uFFFD char\n", "\uFFFD", "del\x7f nel\u0085 ls\u2028 nbsp\u00a0\n", "\U0001F600\n", "\U0010FFFF"}

func c07Text(src *choice.Src) string {
	var b strings.Builder
	for i, n := 0, src.Range(1, 5); i < n; i++ {
		b.WriteString(c07TextAtoms[src.Intn(len(c07TextAtoms))])
	}
	s := b.String()
	if !strings.HasSuffix(s, "\n") {
		s += "\n"
	}
	return s
}

var c07TransitKinds = []string{"none", "flip-text-byte", "flip-sig-byte", "replace-text-char", "drop-sig-line", "dup-sig-line", "swap-sig-lines", "append-unknown-sig", "append-garbage-sig-of-known-key", "many-sig-lines", "insert-control-char", "insert-bad-utf8", "truncate", "rename-signer", "remove-separator", "insert-blank-line-in-sigs", "append-text-line", "same-length-text-edit", "text-tail-into-signature"}

func c07Transit(src *choice.Src, msg []byte, kind string) []byte {
	out := append([]byte(nil), msg...)
	split := bytes.LastIndex(out, []byte("\n\n"))
	if split < 0 {
		return out
	}
	text, sigs := out[:split+1], out[split+2:]
	lines := strings.SplitAfter(string(sigs), "\n")
	if len(lines) > 0 && lines[len(lines)-1] == "" {
		lines = lines[:len(lines)-1]
	}
	join := func(t []byte, ls []string) []byte {
		return append(append(append([]byte(nil), t...), '\n'), []byte(strings.Join(ls, ""))...)
	}
	switch kind {
	case "flip-text-byte":
		if len(text) > 0 {
			i := src.Intn(len(text))
			out[i] ^= 1 << uint(src.Intn(7))
		}
	case "replace-text-char", "same-length-text-edit":
		if len(text) > 1 {
			i := src.Intn(len(text) - 1)
			if out[i] != '\n' && out[i] < 0x80 {
				out[i] = "abcXYZ019 "[src.Intn(10)]
			}
		}
	case "flip-sig-byte":
		if len(sigs) > 0 {
			i := split + 2 + src.Intn(len(sigs))
			out[i] ^= 1 << uint(src.Intn(7))
		}
	case "drop-sig-line":
		if len(lines) > 0 {
			i := src.Intn(len(lines))
			lines = append(lines[:i:i], lines[i+1:]...)
			out = join(text, lines)
		}
	case "dup-sig-line":
		if len(lines) > 0 {
			i := src.Intn(len(lines))
			lines = append(lines, lines[i])
			out = join(text, lines)
		}
	case "swap-sig-lines":
		if len(lines) > 1 {
			i, j := src.Intn(len(lines)), src.Intn(len(lines))
			lines[i], lines[j] = lines[j], lines[i]
			out = join(text, lines)
		}
	case "append-unknown-sig":
		k := ref.NewKey("stranger.example", uint64(100+src.Intn(3)))
		out = append(out, []byte(k.SigLine(string(text)))...)
	case "append-garbage-sig-of-known-key":
		k := c07Keys[src.Intn(len(c07Keys))]
		line := ref.RawSigLine(k.Name, k.Hash, src.Bytes(64))
		if src.Bool(1, 2) {
			out = append(out, []byte(line)...)
		} else {
			lines = append([]string{line}, lines...)
			out = join(text, lines)
		}
	case "many-sig-lines":
		k := ref.NewKey("stranger.example", 200)
		n := 95 + src.Intn(10)
		for i := 0; i < n; i++ {
			var b [8]byte
			binary.LittleEndian.PutUint64(b[:], uint64(i))
			out = append(out, []byte(ref.RawSigLine(k.Name, k.Hash, b[:]))...)
		}
	case "insert-control-char":
		i := src.Intn(len(out) + 1)
		out = append(out[:i:i], append([]byte{[]byte{0x00, 0x07, 0x1f, '\r', '\t'}[src.Intn(5)]}, out[i:]...)...)
	case "insert-bad-utf8":
		i := src.Intn(len(out) + 1)
		out = append(out[:i:i], append([]byte{[]byte{0xff, 0xc0, 0x80, 0xed}[src.Intn(4)]}, out[i:]...)...)
	case "truncate":
		out = out[:src.Intn(len(out))]
	case "rename-signer":
		if len(lines) > 0 {
			i := src.Intn(len(lines))
			lines[i] = strings.Replace(lines[i], "— ", "— z", 1)
			out = join(text, lines)
		}
	case "remove-separator":
		out = append(append([]byte(nil), text...), sigs...)
	case "insert-blank-line-in-sigs":
		if len(lines) > 0 {
			i := src.Intn(len(lines) + 1)
			lines = append(lines[:i:i], append([]string{"\n"}, lines[i:]...)...)
			out = join(text, lines)
		}
	case "append-text-line":
		out = join(append(append([]byte(nil), text...), []byte("extra line\n")...), lines)
	case "text-tail-into-signature":
		// the boundary between text and signature is shifted: the text loses its last lines and a
		// signature gains them in front, so that text||signature is the same byte string as before
		var cuts []int
		for i := 1; i < len(text); i++ {
			if text[i-1] == '\n' {
				cuts = append(cuts, i)
			}
		}
		if len(cuts) > 0 && len(lines) > 0 {
			c := cuts[src.Intn(len(cuts))]
			i := src.Intn(len(lines))
			f := strings.Split(strings.TrimSuffix(lines[i], "\n"), " ")
			if len(f) == 3 && f[0] == "—" {
				if raw, err := base64.StdEncoding.DecodeString(f[2]); err == nil && len(raw) >= 4 {
					nraw := append(append(append([]byte(nil), raw[:4]...), text[c:]...), raw[4:]...)
					lines[i] = f[0] + " " + f[1] + " " + base64.StdEncoding.EncodeToString(nraw) + "\n"
					out = join(text[:c], lines)
				}
			}
		}
	}
	return out
}

// fakeSigner signs with bytes chosen by the simulator, may fail, may have an invalid name.
type fakeSigner struct {
	name string
	hash uint32
	sig  []byte
	err  error
	// shared, if set, is an output buffer this signer shares with other signers of its owner (one
	// device, one response buffer): every Sign overwrites it and returns a slice of it
	shared *[]byte
}

func (s *fakeSigner) Name() string    { return s.name }
func (s *fakeSigner) KeyHash() uint32 { return s.hash }
func (s *fakeSigner) Sign([]byte) ([]byte, error) {
	if s.shared != nil && s.err == nil {
		*s.shared = append((*s.shared)[:0], s.sig...)
		return *s.shared, nil
	}
	return s.sig, s.err
}

type c07SignerSpec struct {
	key  *ref.Key // real signer
	fake *fakeSigner
}

var c07BadNames = []string{"", "has space", "plus+sign", "tab\tname", "nbsp name", "bad\xffutf8", "ctl\x01name", "esc\x1bname", "nul\x00name", "us\x1f"}

// c07SignReference computes the exact bytes note.Sign must produce, or that it must fail.
func c07SignReference(n *note.Note, signers []c07SignerSpec) (want []byte, fail bool) {
	if !strings.HasSuffix(n.Text, "\n") {
		return nil, true
	}
	have := map[string]bool{}
	var newLines strings.Builder
	for _, s := range signers {
		var name string
		var hash uint32
		var sig []byte
		if s.key != nil {
			name, hash = s.key.Name, s.key.Hash
			sig = ed25519.Sign(s.key.Priv, []byte(n.Text))
		} else {
			name, hash, sig = s.fake.name, s.fake.hash, s.fake.sig
		}
		have[fmt.Sprintf("%s+%08x", name, hash)] = true
		if !ref.ValidKeyName(name) {
			return nil, true
		}
		if s.fake != nil && s.fake.err != nil {
			return nil, true
		}
		newLines.WriteString(ref.RawSigLine(name, hash, sig))
	}
	var b strings.Builder
	b.WriteString(n.Text)
	b.WriteString("\n")
	for _, list := range [][]note.Signature{n.Sigs, n.UnverifiedSigs} {
		for _, s := range list {
			if !ref.ValidKeyName(s.Name) {
				return nil, true
			}
			if have[fmt.Sprintf("%s+%08x", s.Name, s.Hash)] {
				continue
			}
			raw, err := base64.StdEncoding.DecodeString(s.Base64)
			if err != nil || len(raw) < 4 || binary.BigEndian.Uint32(raw) != s.Hash {
				return nil, true
			}
			b.WriteString("— " + s.Name + " " + s.Base64 + "\n")
		}
	}
	b.WriteString(newLines.String())
	return []byte(b.String()), false
}

// c07Canonical: msg is spelled exactly the way Sign would spell it (text, blank line, signature lines
// with canonical base64).
func c07Canonical(msg []byte) bool {
	pn, ok := ref.ParseNote(msg)
	if !ok {
		return false
	}
	var b strings.Builder
	b.WriteString(pn.Text)
	b.WriteString("\n")
	for _, s := range pn.Sigs {
		raw, err := base64.StdEncoding.Strict().DecodeString(s.Base64)
		if err != nil || base64.StdEncoding.EncodeToString(raw) != s.Base64 {
			return false
		}
		b.WriteString("— " + s.Name + " " + s.Base64 + "\n")
	}
	return b.String() == string(msg)
}

// c07NormalSigLines reduces a signed message to what the property pins down about Sign's output: the
// text, then the signature lines in order of first appearance, identical lines once, base64 respelled
// canonically. (The unchanged code re-emits existing lines verbatim, duplicates included.)
func c07NormalSigLines(text string, msg []byte) []byte {
	prefix := text + "\n"
	if !strings.HasPrefix(string(msg), prefix) {
		return msg
	}
	var b strings.Builder
	b.WriteString(prefix)
	seen := map[string]bool{}
	for _, line := range strings.SplitAfter(string(msg[len(prefix):]), "\n") {
		if line == "" {
			continue
		}
		norm := line
		if f := strings.Split(strings.TrimSuffix(line, "\n"), " "); len(f) == 3 && f[0] == "—" {
			if raw, err := base64.StdEncoding.DecodeString(f[2]); err == nil {
				norm = f[0] + " " + f[1] + " " + base64.StdEncoding.EncodeToString(raw) + "\n"
			}
		}
		if seen[norm] {
			continue
		}
		seen[norm] = true
		b.WriteString(norm)
	}
	return []byte(b.String())
}

type c07Party struct {
	entries []trustEntry
	useList bool
	vs      note.Verifiers
	spies   []note.Verifier
	calls   *[]c07VerifyCall
	buf     []byte // reusable receive buffer
	signers []c07SignerSpec
	busy    bool
}

// c07BusySigner is a signer during whose Sign call something else happens (Signer.Sign is the caller's
// code: whatever another goroutine of the caller does at that moment can be placed there).
type c07BusySigner struct {
	note.Signer
	meanwhile func()
}

func (s c07BusySigner) Sign(msg []byte) ([]byte, error) {
	s.meanwhile()
	return s.Signer.Sign(msg)
}

func c07NewParty(src *choice.Src, res *core.Result, hint []*ref.Key) *c07Party {
	p := &c07Party{calls: new([]c07VerifyCall)}
	n := src.Weighted(1, 4, 4, 2, 1)
	if len(hint) > 0 && src.Bool(3, 4) {
		// usually trust at least one key that has signed the message so far
		k := hint[src.Intn(len(hint))]
		p.entries = append(p.entries, trustEntry{key: k, name: k.Name, hash: k.Hash})
	}
	for i := 0; i < n; i++ {
		var e trustEntry
		switch src.Weighted(8, 2, 1) {
		case 0: // a real key
			k := c07Keys[src.Intn(len(c07Keys))]
			e = trustEntry{key: k, name: k.Name, hash: k.Hash}
		case 1: // a fake verifier whose verdict the simulator decides, sometimes shadowing a real identity
			k := c07Keys[src.Intn(len(c07Keys))]
			e = trustEntry{name: k.Name, hash: k.Hash, verdict: src.Bool(1, 2)}
			if src.Bool(1, 2) {
				e.name, e.hash = "fake.example/v", uint32(src.Intn(3))
			}
		default:
			k := c07Keys[src.Intn(len(c07Keys))]
			e = trustEntry{key: k, name: k.Name, hash: k.Hash, mode: 1 + src.Intn(2)}
		}
		p.entries = append(p.entries, e)
	}
	p.useList = src.Bool(2, 3)
	for i := range p.entries {
		e := &p.entries[i]
		if p.useList {
			e.mode = 0 // a VerifierList cannot misbehave
		}
		sv := &spyVerifier{name: e.name, hash: e.hash, verdict: e.verdict, calls: p.calls}
		if e.key != nil {
			inner, err := note.NewVerifier(e.key.VerifierText())
			if err != nil {
				res.Fail("C07", "newverifier-accepts-valid-key", "NewVerifier rejects a well-formed verifier key", "NewVerifier(%q): %v", e.key.VerifierText(), err)
				inner = nil
			} else if inner.Name() != e.key.Name || inner.KeyHash() != e.key.Hash {
				res.Fail("C07", "newverifier-identity", "NewVerifier reports the wrong name or key hash", "key %q: name %q hash %08x", e.key.VerifierText(), inner.Name(), inner.KeyHash())
			}
			sv.inner = inner
			if inner == nil {
				e.key = nil
			}
		}
		p.spies = append(p.spies, sv)
	}
	if p.useList {
		p.vs = note.VerifierList(p.spies...)
	} else {
		p.vs = &simVerifiers{entries: p.entries, vs: p.spies, unknownStyle: src.Intn(3)}
	}
	// signers this party would add
	for i, n := 0, src.Weighted(1, 5, 2); i < n; i++ {
		switch src.Weighted(10, 1, 1, 1) {
		case 0:
			p.signers = append(p.signers, c07SignerSpec{key: c07Keys[src.Intn(len(c07Keys))]})
		case 1:
			p.signers = append(p.signers, c07SignerSpec{fake: &fakeSigner{name: c07BadNames[src.Intn(len(c07BadNames))], hash: 7, sig: src.Bytes(64)}})
		case 2:
			p.signers = append(p.signers, c07SignerSpec{fake: &fakeSigner{name: "fail.example", hash: 9, err: errors.New("HSM unavailable")}})
		default:
			p.signers = append(p.signers, c07SignerSpec{fake: &fakeSigner{name: "fake.example/v", hash: uint32(src.Intn(3)), sig: src.Bytes(src.Range(1, 70))}})
		}
	}
	if src.Bool(1, 8) {
		// two keys on one signing device that answers from one buffer
		buf := make([]byte, 0, 80)
		for i := 0; i < 2; i++ {
			p.signers = append(p.signers, c07SignerSpec{fake: &fakeSigner{name: fmt.Sprintf("hsm.example/k%d", i), hash: uint32(40 + i), sig: src.Bytes(64), shared: &buf}})
		}
	}
	// a busy signing service: it has just had a failed signing attempt, and another of its goroutines
	// signs a note of its own while this one is inside its signer
	p.busy = src.Bool(1, 4)
	return p
}

// open runs the real note.Open on msg for party p and compares with the reference.
func (p *c07Party) open(res *core.Result, who string, msg []byte) *note.Note {
	*p.calls = (*p.calls)[:0]
	exp := c07Reference(msg, p.entries, p.useList)
	var n *note.Note
	var err error
	func() {
		defer func() {
			if e := recover(); e != nil {
				res.Fail("C07", "no-panic", "note.Open panicked", "%s: Open panicked: %v", who, e)
				err = errors.New("panic")
			}
		}()
		n, err = note.Open(msg, p.vs)
	}()
	c07Mu.Lock()
	calls := append([]c07VerifyCall(nil), *p.calls...)
	c07Mu.Unlock()
	if err == nil {
		res.Probes["open-succeeded"]++
		if exp.fail {
			res.Fail("C07", "open-rejects", "Open accepted a message it must reject", "%s: Open succeeded (text %q, %d verified, %d unverified) but the message must be rejected: %s; message: %q", who, clip(n.Text), len(n.Sigs), len(n.UnverifiedSigs), exp.why, clip(string(msg)))
			return n
		}
		if n.Text != exp.text {
			res.Fail("C07", "open-text", "Open returned a text other than the signed text", "%s: got %q want %q", who, clip(n.Text), clip(exp.text))
		}
		if !sigsEqual(n.Sigs, exp.sigs) || !sigsEqual(n.UnverifiedSigs, exp.unverified) {
			res.Fail("C07", "open-partition", "Open's verified/unverified partition is not the documented one", "%s: verified %v unverified %v; want verified %v unverified %v", who, n.Sigs, n.UnverifiedSigs, exp.sigs, exp.unverified)
		}
		// every verified signature was checked by that key's verifier over exactly the returned text
		for _, s := range n.Sigs {
			raw, _ := base64.StdEncoding.DecodeString(s.Base64)
			ok := false
			for _, c := range calls {
				if c.name == s.Name && c.hash == s.Hash && c.msg == n.Text && len(raw) >= 4 && c.sig == string(raw[4:]) && c.result {
					ok = true
				}
			}
			if !ok {
				res.Fail("C07", "verified-means-verified", "a signature is listed as verified without a successful Verify over the returned text", "%s: signature %s+%08x listed in Sigs; Verify calls recorded: %d, none over the returned text with this signature returning true", who, s.Name, s.Hash, len(calls))
			}
		}
		return n
	}
	res.Probes["open-failed"]++
	if (!exp.fail || exp.unverErr) && !c07Canonical(msg) {
		// The property promises that what Sign produces opens again; a message that is well-formed by the
		// documented format but is not spelled the way Sign spells it (base64 with stray padding bits
		// after a bit flip in transit) may be refused as malformed.
		res.Probes["open-refused-non-canonical-spelling"]++
		return nil
	}
	if !exp.fail {
		res.Fail("C07", "open-accepts", "Open rejected a valid message", "%s: Open failed with %v but the message carries a valid signature by a known key and nothing forbids it; message: %q", who, err, clip(string(msg)))
		return nil
	}
	if exp.unverErr {
		var ue *note.UnverifiedNoteError
		if !errors.As(err, &ue) {
			res.Fail("C07", "unverified-note-error", "a well-formed note without known signatures must yield UnverifiedNoteError", "%s: got %T %v", who, err, err)
		} else if ue.Note == nil || ue.Note.Text != exp.text || !sigsEqual(ue.Note.UnverifiedSigs, exp.unverified) || len(ue.Note.Sigs) != 0 {
			res.Fail("C07", "unverified-note-error", "UnverifiedNoteError carries the wrong note", "%s: %+v", who, ue.Note)
		}
	}
	return nil
}

func (p *c07Party) sign(res *core.Result, who string, n *note.Note) []byte {
	var signers []note.Signer
	for _, s := range p.signers {
		if s.key != nil {
			rs, err := note.NewSigner(s.key.SignerText())
			if err != nil {
				res.Fail("C07", "newsigner-accepts-valid-key", "NewSigner rejects a well-formed signer key", "NewSigner: %v", err)
				return nil
			}
			if rs.Name() != s.key.Name || rs.KeyHash() != s.key.Hash {
				res.Fail("C07", "newsigner-identity", "NewSigner reports the wrong name or key hash", "name %q hash %08x", rs.Name(), rs.KeyHash())
			}
			signers = append(signers, rs)
		} else {
			signers = append(signers, s.fake)
		}
	}
	if p.busy && len(signers) > 0 {
		if _, ferr := note.Sign(&note.Note{Text: "attempt\n"}, &fakeSigner{name: "broken.example/dev", hash: 1, err: errors.New("device unplugged")}); ferr == nil {
			res.Fail("C07", "sign-rejects", "Sign succeeded where it must fail (invalid signer name, failing signer, or malformed existing signature)", "%s: the signer failed and Sign returned no error", who)
			return nil
		}
		other, oerr := note.NewSigner(c07Keys[0].SignerText())
		if oerr == nil {
			on := &note.Note{Text: "signed meanwhile by another goroutine of " + who + "\n"}
			owant, _ := c07SignReference(on, []c07SignerSpec{{key: c07Keys[0]}})
			signers[0] = c07BusySigner{Signer: signers[0], meanwhile: func() {
				ogot, err := note.Sign(on, other)
				if err != nil || !bytes.Equal(ogot, owant) {
					res.Fail("C07", "sign-output", "Sign output is not the documented encoding", "%s, a Sign call made while another Sign call is inside its signer: got %q, %v want %q", who, clip(string(ogot)), err, clip(string(owant)))
				}
			}}
			res.Probes["sign-inside-sign"]++
		}
	}
	want, mustFail := c07SignReference(n, p.signers)
	var got []byte
	var err error
	func() {
		defer func() {
			if e := recover(); e != nil {
				res.Fail("C07", "no-panic", "note.Sign panicked", "%s: %v", who, e)
				err = errors.New("panic")
			}
		}()
		got, err = note.Sign(n, signers...)
	}()
	if mustFail {
		if err == nil {
			res.Fail("C07", "sign-rejects", "Sign succeeded where it must fail (invalid signer name, failing signer, or malformed existing signature)", "%s: produced %q", who, clip(string(got)))
		}
		res.Probes["sign-refused"]++
		return nil
	}
	if err != nil {
		res.Fail("C07", "sign-succeeds", "Sign failed on valid input", "%s: %v", who, err)
		return nil
	}
	if _, ok := ref.ParseNote(got); !ok {
		res.Fail("C07", "sign-produces-openable", "Sign produced a message that is not a well-formed signed note", "%s: %q", who, clip(string(got)))
		return got
	}
	if !bytes.Equal(got, want) && !bytes.Equal(c07NormalSigLines(n.Text, got), c07NormalSigLines(n.Text, want)) {
		res.Fail("C07", "sign-output", "Sign output is not the documented encoding", "%s: got %q want %q", who, clip(string(got)), clip(string(want)))
	}
	return got
}

// deliver puts msg into the party's reusable receive buffer (same backing array when it fits).
func (p *c07Party) deliver(msg []byte) []byte {
	if cap(p.buf) < len(msg) {
		p.buf = make([]byte, 0, len(msg)+64)
	}
	p.buf = p.buf[:len(msg)]
	copy(p.buf, msg)
	return p.buf
}

func c07Explore(src *choice.Src) *core.Result {
	res := core.NewResult()
	text := c07Text(src)
	if src.Bool(1, 10) {
		text = strings.TrimSuffix(text, "\n") // not valid note text: Sign must refuse
	}
	origin := c07NewParty(src, res, nil)
	if len(origin.signers) == 0 {
		origin.signers = []c07SignerSpec{{key: c07Keys[0]}}
	}
	res.Logf("C07 chain: text %q, origin signs with %d signers", clip(text), len(origin.signers))
	msg := origin.sign(res, "origin", &note.Note{Text: text})
	hops := src.Weighted(2, 3, 2, 1, 1)
	var kinds []string
	var signedBy []*ref.Key
	for _, sg := range origin.signers {
		if sg.key != nil {
			signedBy = append(signedBy, sg.key)
		}
	}
	for h := 0; h <= hops && msg != nil && res.Violation == nil; h++ {
		party := c07NewParty(src, res, signedBy)
		who := fmt.Sprintf("witness %d", h)
		if h == hops {
			who = "final reader"
		}
		// the same party may receive several versions of the message into one buffer
		rounds := src.Weighted(3, 2)
		var accepted *note.Note
		for r := 0; r <= rounds; r++ {
			kind := c07TransitKinds[src.Weighted(6, 2, 2, 2, 1, 2, 1, 2, 2, 1, 1, 1, 1, 1, 1, 1, 1, 2, 2)]
			if r == 0 && src.Bool(1, 2) {
				kind = "none"
			}
			wire := c07Transit(src, msg, kind)
			if !bytes.Equal(wire, msg) {
				res.Faults["transit:"+kind]++
			}
			kinds = append(kinds, kind)
			buf := party.deliver(wire)
			res.Logf("%s receives %d bytes (transit %s)", who, len(buf), kind)
			n := party.open(res, who, buf)
			if n != nil && accepted == nil {
				accepted = n
			}
			res.Steps++
		}
		if accepted == nil || h == hops {
			if accepted == nil {
				res.Logf("%s could not open the message; chain ends", who)
			}
			break
		}
		next := party.sign(res, who, accepted)
		res.Steps++
		if next == nil {
			break
		}
		msg = next
		for _, sg := range party.signers {
			if sg.key != nil {
				signedBy = append(signedBy, sg.key)
			}
		}
	}
	res.Sig = choice.Mix(choice.MixString(text), choice.MixString(strings.Join(kinds, ",")), res.Digest, uint64(hops))
	res.Trivial = msg == nil && hops == 0
	res.Sample = map[string]interface{}{"text": clip(text), "hops": hops, "transit": kinds, "probes": res.Probes}
	return res
}

func init() {
	core.Register(&core.Prop{
		ID:      "C07",
		Entries: []core.Entry{{Name: "explore", Run: c07Explore}},
		Explore: []string{"explore"},
		Rule: "explore: seeded cosigning chains (origin, 0-4 witnesses, final reader); texts built from atoms incl. blank lines, signature-like lines and Unicode; trust sets of real ed25519 keys (two keys under one name), verdict-decided fake verifiers, ambiguous duplicates, a Verifiers that errs or returns another verifier; failing and misnamed signers; 18 kinds of in-transit change; reused receive buffers. " +
			"Distinct = (text, transit kinds, event digest); non-trivial = the origin produced a message or the chain has a hop.",
		Real:        []string{"note.Open", "note.Sign", "note.NewVerifier / NewSigner (ed25519)", "note.VerifierList"},
		Stub:        []string{"note.Verifiers / Verifier / Signer implementations (spies, fakes)", "corrupting transport with reusable receive buffers", "reference parser of the note format + crypto/ed25519 (oracle)"},
		Assumptions: []string{"Ed25519 is secure", "repeated signature lines by one known key: only the first is verified (the package comment says duplicates are ignored); the reference follows that"},
	})
	core.ExpectProbes("C07", "open-succeeded", "open-failed", "sign-refused")
}
