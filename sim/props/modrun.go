package props

import (
	"bytes"
	"fmt"
	"strings"

	"golang.org/x/mod/modfile"
	"golang.org/x/mod/module"

	"verif/sim/choice"
	"verif/sim/core"
)

// session is one real edit session with its own reference model.
// A session holds the real file and the reference model. Which of several lines for one key is the
// "first" one depends on an order the documentation does not pin down: the order of the typed lists in
// memory (which edits extend at the end while inserting the line somewhere in the file) or the order of
// the lines in the file. Both readings are kept: models is a small set of candidate models, forked
// before every operation into "order as it evolved" and "order of the file as it stands"; the real file
// has to agree with at least one candidate at every check, candidates that disagree are dropped, and a
// violation is reported (against the oldest surviving lineage) only when none is left.
type session struct {
	name   string
	real   *realFile
	models []*mModel
	// pendingF3: a memory/file difference that consists only of retraction rationales in a file with a
	// commented retract block (known finding F3), kept until the end of the run
	pendingF3 string
}

const maxCandidates = 48

func (m *mModel) orderKey() string {
	var b strings.Builder
	fmt.Fprintf(&b, "%s|%s|%s|%v|%v;", m.module, m.goV, m.toolchain, m.scalarTouched, m.scalarID)
	for _, e := range m.entries {
		fmt.Fprintf(&b, "%s#%d,%d,%v;", e.canon(), e.id, e.lead, e.touched)
	}
	return b.String()
}

// fileOrder is the order a reader of the file as it stands now would see (nil if it cannot be parsed
// in its present, possibly not yet cleaned-up, state).
func (s *session) fileOrder() *mModel {
	p, err := parseReal(s.real.work, s.real.format())
	if err != nil {
		return nil
	}
	pm, _ := p.lists()
	return pm
}

// hasDups: two entries share the key that "first"/"other" semantics look at. Only then can the order
// of the entries influence what an operation does.
func (m *mModel) hasDups() bool {
	seen := map[string]bool{}
	for _, e := range m.entries {
		k := e.kind + "|" + e.a
		if seen[k] {
			return true
		}
		seen[k] = true
	}
	return false
}

// orderMatters: the outcome of o on m can depend on the order of m's entries.
func (m *mModel) orderMatters(o mOp) bool {
	count := func(kind string, match func(e *mEntry) bool) int {
		n := 0
		for i := range m.entries {
			if m.entries[i].kind == kind && match(&m.entries[i]) {
				n++
			}
		}
		return n
	}
	byA := func(e *mEntry) bool { return e.a == o.a }
	switch o.name {
	case "AddRequire":
		return count("require", byA) > 1
	case "AddGodebug":
		return count("godebug", byA) > 1
	case "AddUse":
		return count("use", byA) > 1
	case "AddReplace":
		return count("replace", byA) > 1
	case "AddExclude":
		return count("exclude", func(e *mEntry) bool { return e.a == o.a && e.b == o.b }) > 1
	case "AddTool", "SortBlocks", "SetRequire", "SetRequireSeparateIndirect", "SetUse":
		return m.hasDups()
	}
	return false
}

// fork adds, for every candidate, its twin whose entries are in file order.
func (s *session) fork(res *core.Result, o mOp) {
	dups := false
	for _, m := range s.models {
		dups = dups || m.orderMatters(o)
	}
	if !dups {
		return
	}
	res.Probes["order-readings-forked"]++
	fo := s.fileOrder()
	if fo == nil {
		return
	}
	seen := map[string]bool{}
	for _, m := range s.models {
		seen[m.orderKey()] = true
	}
	for _, m := range s.models[:len(s.models):len(s.models)] {
		alt := m.clone()
		adoptOrder(alt, fo)
		if k := alt.orderKey(); !seen[k] {
			seen[k] = true
			if len(s.models) >= maxCandidates {
				res.Probes["candidate-models-capped"]++
				return
			}
			s.models = append(s.models, alt)
		}
	}
}

func (s *session) applyModel(o mOp) {
	seen := map[string]bool{}
	var out []*mModel
	add := func(m *mModel) {
		if k := m.orderKey(); !seen[k] && len(out) < maxCandidates {
			seen[k] = true
			out = append(out, m)
		}
	}
	for _, m := range s.models {
		var alt *mModel
		switch o.name {
		case "AddTool", "SortBlocks", "SetRequire", "SetRequireSeparateIndirect", "SetUse":
			// these de-duplicate exclude/replace/tool lines as a side effect in the unchanged code; a
			// reading in which they do not is kept as well
			alt = m.clone()
			alt.skipDedup = true
			alt.apply(o)
			alt.skipDedup = false
		}
		m.apply(o)
		add(m)
		if alt != nil {
			add(alt)
		}
	}
	s.models = out
}

// modCheck evaluates the oracles of C08 and C15 on a session that has just been cleaned up.
// It returns the strictly re-parsed file (nil if that failed).
func modCheck(res *core.Result, prop string, s *session, when string, history []string, out []byte) *realFile {
	p, err := parseReal(s.real.work, out)
	hist := strings.Join(history, "; ")
	if err != nil {
		if prop == "C08" {
			res.Fail("C08", "output-parses-strictly", "the formatted file does not parse strictly", "%s %s: %v\nfile:\n%s\nhistory: %s", s.name, when, firstLine(err.Error()), clipText(out), hist)
		}
		return nil
	}
	parsed, _ := p.lists()
	mem, zero := s.real.lists()
	if prop == "C08" {
		var firstFail func()
		var keep []*mModel
		for _, m := range s.models {
			note := ""
			if fail := c08Judge(m, p, parsed, s.name, when, out, hist, &note); fail != nil {
				if firstFail == nil {
					firstFail = func() { fail(res) }
				}
				continue
			}
			keep = append(keep, m)
			if note != "" && s.pendingF3 == "" {
				s.pendingF3 = note
			}
		}
		if len(keep) == 0 {
			firstFail()
			return p
		}
		if len(keep) < len(s.models) {
			res.Probes["candidate-model-dropped"]++
		}
		s.models = keep
	}
	if prop == "C15" {
		if len(zero) > 0 {
			res.Fail("C15", "no-placeholder-entries", "the in-memory lists hold cleared placeholder entries after Cleanup", "%s %s: zero entries at %v\nhistory: %s", s.name, when, zero, hist)
			return p
		}
		if d := diffLists(mem.canonList(), parsed.canonList()); d != "" {
			// Known finding F3: in a file with a commented retract block the rationale held in memory and
			// the rationale a reader of the file sees can differ. It is reported at the end of the run and
			// only if nothing else is wrong, so that it does not hide other violations in such files.
			if len(s.models) > 0 && s.models[0].looseRationale && diffLists(stripRationale(mem.canonList()), stripRationale(parsed.canonList())) == "" {
				if s.pendingF3 == "" {
					s.pendingF3 = fmt.Sprintf("%s %s: (- memory only, + file only) %s\nfile:\n%s\nhistory: %s", s.name, when, d, clipText(out), hist)
				}
				return p
			}
			res.Fail("C15", "memory-equals-file", "the in-memory lists differ from a strict parse of the formatted file", "%s %s: (- memory only, + file only) %s\nfile:\n%s\nhistory: %s", s.name, when, d, clipText(out), hist)
			return p
		}
	}
	return p
}

// stripRationale replaces the rationale of retractions in a canonical list.
func stripRationale(l []string) []string {
	out := make([]string, len(l))
	for i, x := range l {
		if f := strings.Split(x, "|"); len(f) >= 4 && f[0] == "retract" {
			f[3] = "(rationale not compared)"
			x = strings.Join(f, "|")
		}
		out[i] = x
	}
	return out
}

// c08Judge compares the strictly re-parsed file with one candidate model. It returns nil if they agree,
// otherwise a function that records the violation.
func c08Judge(model *mModel, p *realFile, parsed *mModel, name, when string, out []byte, hist string, rationaleNote *string) func(res *core.Result) {
	ml, pl := model.canonList(), parsed.canonList()
	if model.looseRationale {
		if full := diffLists(ml, pl); full != "" && diffLists(stripRationale(ml), stripRationale(pl)) == "" && rationaleNote != nil && *rationaleNote == "" {
			*rationaleNote = fmt.Sprintf("%s %s: (- model only, + file only) %s\nfile:\n%s\nhistory: %s", name, when, full, clipText(out), hist)
		}
		ml, pl = stripRationale(ml), stripRationale(pl)
	}
	if d := diffLists(ml, pl); d != "" {
		return func(res *core.Result) {
			res.Fail("C08", "directives-equal-model", "the file's directives differ from the set/map model", "%s %s: (- model only, + file only) %s\nfile:\n%s\nhistory: %s", name, when, d, clipText(out), hist)
		}
	}
	// untargeted lines survive with their own comments and values
	byID := map[int]mEntry{}
	for _, e := range parsed.entries {
		if e.id > 0 {
			byID[e.id] = e
		}
	}
	for _, e := range model.entries {
		if e.id == 0 || e.touched {
			continue
		}
		e := e
		l := findLineByID(p.syntax(), e.id)
		pe, ok := byID[e.id]
		switch {
		case l == nil || !ok:
			return func(res *core.Result) {
				res.Fail("C08", "untargeted-line-survives", "a directive line that no operation targeted lost its end-of-line comment or disappeared", "%s %s: line #%d (%s) not found with its end-of-line comment\nfile:\n%s\nhistory: %s", name, when, e.id, e.canon(), clipText(out), hist)
			}
		case pe.canon() != e.canon() && !(model.looseRationale && e.kind == "retract" && pe.a == e.a && pe.b == e.b):
			return func(res *core.Result) {
				res.Fail("C08", "untargeted-line-survives", "a directive line that no operation targeted changed", "%s %s: line #%d was %s and is now %s\nhistory: %s", name, when, e.id, e.canon(), pe.canon(), hist)
			}
		case e.kind == "require" && !e.indirect && lineMentionsIndirect(l):
			return func(res *core.Result) {
				res.Fail("C08", "untargeted-line-survives", "the end-of-line comment of a direct requirement still contains indirect-marker text", "%s %s: line #%d (%s) has end-of-line comment %q\nhistory: %s", name, when, e.id, e.canon(), suffixText(l), hist)
			}
		case !hasLeadComments(l, nil, e.id, e.lead):
			return func(res *core.Result) {
				res.Fail("C08", "untargeted-line-survives", "a directive line that no operation targeted lost a leading comment", "%s %s: line #%d (%s) lost one of its %d leading comments\nfile:\n%s\nhistory: %s", name, when, e.id, e.canon(), e.lead, clipText(out), hist)
			}
		}
	}
	for _, k := range []string{"module", "go", "toolchain"} {
		k := k
		id := model.scalarID[k]
		if id > 0 && !model.scalarTouched[k] && findLineByID(p.syntax(), id) == nil {
			return func(res *core.Result) {
				res.Fail("C08", "untargeted-line-survives", "an untargeted statement lost its end-of-line comment or disappeared", "%s %s: %s statement #%d\nfile:\n%s\nhistory: %s", name, when, k, id, clipText(out), hist)
			}
		}
	}
	return nil
}

func clipText(b []byte) string {
	s := string(b)
	if len(s) > 1500 {
		s = s[:1500] + "\n..."
	}
	return s
}

// adoptOrder reorders the model's entries to the order of a freshly parsed file (the order a new
// process would see), keeping ids, lead counts and touched flags.
func adoptOrder(m *mModel, parsed *mModel) {
	used := make([]bool, len(m.entries))
	var out []mEntry
	for _, pe := range parsed.entries {
		best := -1
		for i, e := range m.entries {
			if used[i] || e.canon() != pe.canon() {
				continue
			}
			if best < 0 || e.id == pe.id && m.entries[best].id != pe.id {
				best = i
			}
		}
		if best >= 0 {
			used[best] = true
			out = append(out, m.entries[best])
		}
	}
	for i, e := range m.entries {
		if !used[i] {
			out = append(out, e)
		}
	}
	m.entries = out
}

// runModSession drives two real sessions (A: one long in-memory session; B: re-opened from its
// formatted bytes at every persistence point) through one operation history.
func runModSession(src *choice.Src, prop string) *core.Result {
	res := core.NewResult()
	work := src.Bool(1, 4)
	text, model0 := genModText(src, work, false)
	ra, err := parseReal(work, []byte(text))
	if err != nil {
		core.SetHarnessError(fmt.Sprintf("modsim: generated file does not parse: %v\n%s", err, text))
		return res
	}
	rb, _ := parseReal(work, []byte(text))
	if got, _ := ra.lists(); diffLists(got.canonList(), model0.canonList()) != "" {
		core.SetHarnessError(fmt.Sprintf("modsim: generator model and parse disagree: %s\n%s", diffLists(got.canonList(), model0.canonList()), text))
		return res
	}
	A := &session{name: "session A (in memory)", real: ra, models: []*mModel{model0.clone()}}
	B := &session{name: "session B (re-opened at persistence points)", real: rb, models: []*mModel{model0.clone()}}
	nops := src.Range(1, 12)
	if src.Bool(1, 4) {
		nops = src.Range(5, 40)
	}
	res.Logf("%s session: %s, %d operations\n%s", prop, map[bool]string{true: "go.work", false: "go.mod"}[work], nops, text)
	var history []string
	type handedOut struct{ slice, copy []byte }
	var handed []handedOut
	handOut := func(b []byte) []byte {
		handed = append(handed, handedOut{b, append([]byte(nil), b...)})
		return b
	}
	var kept []mOp // bulk operations whose list objects the caller still holds
	noted := map[string]bool{}
	persists := 0
	for i := 0; i < nops && res.Violation == nil; i++ {
		if src.Bool(1, 5) {
			// persistence point: close the session and reopen it in a "new process"
			persists++
			for _, s := range []*session{A, B} {
				s.real.cleanup()
			}
			history = append(history, "[persist]")
			// both files are written out before either is read back (a tool saving all its files)
			outA, outB := handOut(A.real.format()), handOut(B.real.format())
			modCheck(res, prop, A, fmt.Sprintf("at persistence point %d", persists), history, outA)
			pb := modCheck(res, prop, B, fmt.Sprintf("at persistence point %d", persists), history, outB)
			if res.Violation != nil {
				break
			}
			if pb != nil {
				// a new process: the only order there is is the order of the text
				B.real = pb
				pm, _ := pb.lists()
				seen := map[string]bool{}
				var out []*mModel
				for _, m := range B.models {
					adoptOrder(m, pm)
					if k := m.orderKey(); !seen[k] {
						seen[k] = true
						out = append(out, m)
					}
				}
				B.models = out
			}
			res.Steps++
		}
		op := drawOp(src, work)
		bulk := false
		if src.Bool(1, 8) {
			bulk = true
			if work {
				op = mOp{name: "SetUse", reqs: drawUses(src)}
			} else {
				op = mOp{name: []string{"SetRequire", "SetRequireSeparateIndirect"}[src.Intn(2)], reqs: drawBulk(src)}
			}
		}
		if bulk {
			// the documented precondition: Cleanup before a bulk setter
			for _, s := range []*session{A, B} {
				s.real.cleanup()
			}
			history = append(history, "Cleanup")
			// The caller owns the list it passes: the same objects go to both of its files, and one time
			// in three it passes a list again that it used earlier in the session.
			if len(kept) > 0 && kept[0].name == op.name && src.Bool(1, 3) {
				op = kept[src.Intn(len(kept))]
				res.Probes["bulk-list-passed-again"]++
			} else {
				op.callerLists()
				kept = append(kept, op)
			}
		}
		history = append(history, op.String())
		for _, s := range []*session{A, B} {
			if prop == "C08" {
				s.fork(res, op)
			}
			if err := s.real.apply(op); err != nil {
				if prop == "C08" {
					res.Fail("C08", "operation-accepts-valid-arguments", "an edit operation failed or panicked on valid arguments", "%s: %s: %v\nhistory: %s", s.name, op, err, strings.Join(history, "; "))
				}
				break
			}
			s.applyModel(op)
		}
		// whatever the caller handed over is as the caller left it
		// Not a violation by itself (the properties speak about the files): recorded because it explains
		// later mismatches; the consequences are what the oracles judge, since the model applies what the
		// caller believes the list holds while the real file gets the objects as they are.
		for _, k := range kept {
			if d := k.callerListsIntact(); d != "" && !noted[d] {
				noted[d] = true
				res.Probes["caller-list-modified-behind-the-callers-back"]++
				res.Logf("note: the list the caller passed to %s was modified: %s", k.name, d)
			}
		}
		res.Steps++
	}
	if res.Violation == nil {
		for _, s := range []*session{A, B} {
			s.real.cleanup()
		}
		history = append(history, "Cleanup")
		outA, outB := handOut(A.real.format()), handOut(B.real.format())
		modCheck(res, prop, A, "at the end", history, outA)
		modCheck(res, prop, B, "at the end", history, outB)
	}
	if res.Violation == nil && prop == "C08" {
		for _, s := range []*session{A, B} {
			if s.pendingF3 != "" {
				res.Fail("C08", "retract-rationale-equals-model", "the rationale of a retraction in the formatted file is not the one the operations gave it (commented retract block)", "%s", s.pendingF3)
				break
			}
		}
	}
	if res.Violation == nil && prop == "C15" {
		for _, s := range []*session{A, B} {
			if s.pendingF3 != "" {
				res.Fail("C15", "retract-rationale-memory-equals-file", "the rationale of a retraction in memory differs from the rationale a strict parse of the formatted file yields (commented retract block)", "%s", s.pendingF3)
				break
			}
		}
	}
	// bytes handed out by Format belong to the caller: what was written out earlier still reads the same
	if res.Violation == nil && prop == "C08" {
		for i, h := range handed {
			if !bytes.Equal(h.slice, h.copy) {
				res.Fail("C08", "formatted-bytes-stable", "bytes returned by Format changed after a later Format call", "formatted output #%d (%d bytes) was\n%s\nand now reads\n%s\nhistory: %s", i, len(h.copy), clipText(h.copy), clipText(h.slice), strings.Join(history, "; "))
				break
			}
		}
	}
	if persists > 0 {
		res.Probes["session-with-persistence-point"]++
	}
	res.Faults["persistence-point(reopen)"] += persists
	res.Sig = choice.Mix(choice.MixString(text), choice.MixString(strings.Join(history, ";")))
	res.Trivial = nops == 0
	res.Sample = map[string]interface{}{"file": map[bool]string{true: "go.work", false: "go.mod"}[work], "starting_text": clipText([]byte(text)), "history": history, "persistence_points": persists}
	return res
}

// ---- C16: bulk setters ----

func c16Run(src *choice.Src) *core.Result {
	res := core.NewResult()
	work := src.Bool(1, 4)
	bare := !work && src.Bool(1, 3)
	text, model := genModText(src, work, bare)
	r0, err := parseReal(work, []byte(text))
	if err != nil {
		core.SetHarnessError(fmt.Sprintf("modsim: generated file does not parse: %v\n%s", err, text))
		return res
	}
	var history []string
	for i, n := 0, src.Weighted(4, 2, 1, 1); i < n; i++ {
		op := drawOp(src, work)
		history = append(history, op.String())
		if err := r0.apply(op); err != nil {
			res.Probes["pre-op-failed"]++
			res.Trivial = true
			return res
		}
		model.apply(op)
	}
	r0.cleanup()
	history = append(history, "Cleanup")
	bytes0 := r0.format()
	pre, err := parseReal(work, bytes0)
	if err != nil {
		res.Probes["pre-state-does-not-parse"]++ // C08's business
		res.Trivial = true
		return res
	}
	preModel, _ := pre.lists()
	// which duplicate is "first" depends on the list order: the in-memory session keeps its own order,
	// a re-opened file has the order of the text
	memModel := model.clone()
	adoptOrder(model, preModel)
	var op mOp
	if work {
		op = mOp{name: "SetUse", reqs: drawUses(src)}
	} else {
		op = mOp{name: []string{"SetRequire", "SetRequireSeparateIndirect"}[src.Intn(2)], reqs: drawBulk(src)}
	}
	// the caller owns the list it passes and uses the same objects for every file it sets
	op.callerLists()
	// sometimes an earlier bulk set on another file failed (conflicting versions for one path are a
	// documented misuse that panics); what it leaves behind must not reach later calls
	if !work && src.Bool(1, 6) {
		if y, err := parseReal(work, bytes0); err == nil {
			func() {
				defer func() { recover() }()
				y.f.SetRequire([]*modfile.Require{
					{Mod: module.Version{Path: "stale.example/left-over", Version: "v1.0.0"}},
					{Mod: module.Version{Path: "example.com/a", Version: "v1.0.0"}},
					{Mod: module.Version{Path: "example.com/a", Version: "v1.2.3"}},
				})
			}()
			res.Faults["earlier-bulk-set-panicked(conflicting versions)"]++
			history = append(history, "[on another file: SetRequire with conflicting versions, recovered]")
		}
	}
	history = append(history, op.String(), "Cleanup")
	hist := strings.Join(history, "; ")
	res.Logf("C16: %s then %s\n%s", map[bool]string{true: "go.work", false: "go.mod"}[work], op, string(bytes0))

	// the bulk setters iterate a Go map: repeat from identical state, outputs must be byte-identical
	reps := 4
	if core.Replaying() {
		reps = 32 // a replay samples the map order more often, so that an order-dependent result shows again
	}
	var outs [][]byte
	var first *realFile
	var others []*realFile
	for k := 0; k < reps; k++ {
		x, err := parseReal(work, bytes0)
		if err != nil {
			core.SetHarnessError("modsim: re-parse of the pre-state failed")
			return res
		}
		x.cleanup()
		if err := x.apply(op); err != nil {
			res.Fail("C16", "bulk-setter-runs", "a bulk setter failed or panicked", "%s: %v\nfile before:\n%s\nhistory: %s", op, err, clipText(bytes0), hist)
			return res
		}
		x.cleanup()
		outs = append(outs, x.format())
		if k == 0 {
			first = x
		}
		others = append(others, x)
		res.Steps++
	}
	for k := 1; k < reps; k++ {
		if !bytes.Equal(outs[0], outs[k]) {
			// the text must not depend on which repetition differed (map order is not under the simulator's control)
			res.Logf("run 0:\n%s\nrun %d:\n%s", clipText(outs[0]), k, clipText(outs[k]))
			res.Fail("C16", "deterministic-output", "the same bulk set on the same file gives different files", "%s: repeated from identical bytes the outputs differ (they depend on Go's map iteration order)\nfile before:\n%s", op, clipText(bytes0))
			return res
		}
	}
	// the same bulk set on the session that produced the pre-state (no re-parse in between): a setter
	// must not depend on leftovers of earlier edits in the in-memory tree
	if err := r0.apply(op); err != nil {
		res.Fail("C16", "bulk-setter-runs", "a bulk setter failed or panicked on the edited in-memory file", "%s: %v\nfile before:\n%s\nhistory: %s", op, err, clipText(bytes0), hist)
		return res
	}
	r0.cleanup()
	// after the same list went to the other files, the first file is set to it once more: the result
	// must be what it was
	if first != nil {
		if err := first.apply(op); err != nil {
			res.Fail("C16", "bulk-setter-runs", "a bulk setter failed or panicked when the same list was applied to a file a second time", "%s: %v\nfile before:\n%s\nhistory: %s", op, err, clipText(bytes0), hist)
			return res
		}
		first.cleanup()
		if again := first.format(); !bytes.Equal(again, outs[0]) {
			res.Logf("first result:\n%s\nafter setting the same list again:\n%s", clipText(outs[0]), clipText(again))
			if c16Judge(res, work, op, []*mModel{model}, pre, bytes0, again, "set to the same list a second time, after the list had been applied to other files") {
				return res
			}
		}
	}
	// then the first file is set to a shorter list (a new list object): it must hold exactly that, and the
	// other files, which nobody touched since, must read as they did
	if first != nil && len(op.reqs) > 0 && res.Violation == nil {
		op2 := mOp{name: op.name, reqs: append([]mEntry(nil), op.reqs[:len(op.reqs)-1]...)}
		op2.callerLists()
		if err := first.apply(op2); err != nil {
			res.Fail("C16", "bulk-setter-runs", "a bulk setter failed or panicked", "%s after %s: %v\nfile before:\n%s\nhistory: %s", op2, op, err, clipText(bytes0), hist)
			return res
		}
		first.cleanup()
		if c16Judge(res, work, op2, []*mModel{model}, pre, bytes0, first.format(), "set to a shorter list after the longer one had been applied to this and to other files") {
			return res
		}
		for k := 1; k < len(others); k++ {
			others[k].cleanup()
			if now := others[k].format(); !bytes.Equal(now, outs[k]) {
				res.Fail("C16", "other-files-untouched", "a file changed although only another file was edited", "%s was applied to several files from one list; then the first file was set to %s; file #%d, untouched since its own set, was\n%s\nand now reads\n%s", op, op2, k, clipText(outs[k]), clipText(now))
				return res
			}
		}
	}
	variants := [][]byte{outs[0], r0.format()}
	for vi, out := range variants {
		// from the re-parsed file there is one order; on the in-memory session "first" may be read as first
		// in the typed list or first in the file
		if c16Judge(res, work, op, [][]*mModel{{model}, {memModel, model}}[vi], pre, bytes0, out, []string{"from the re-parsed file", "on the in-memory session"}[vi]) {
			return res
		}
	}
	res.Faults["map-order-repetition"] += 4
	res.Sig = choice.Mix(choice.MixString(string(bytes0)), choice.MixString(op.String()))
	res.Sample = map[string]interface{}{"file": map[bool]string{true: "go.work", false: "go.mod"}[work], "before": clipText(bytes0), "operation": op.String(), "after": clipText(outs[0]), "repetitions": 4}
	return res
}

// c16Judge applies the postconditions of a bulk set to one output; it reports whether a violation was recorded.
func c16Judge(res *core.Result, work bool, op mOp, models []*mModel, pre *realFile, bytes0, out []byte, how string) bool {
	p, err := parseReal(work, out)
	if err != nil {
		res.Fail("C16", "output-parses-strictly", "the file does not parse after a bulk set", "%s (%s): %v\nfile before:\n%s\nfile after:\n%s", op, how, firstLine(err.Error()), clipText(bytes0), clipText(out))
		return true
	}
	got, _ := p.lists()
	kind := "require"
	if work {
		kind = "use"
	}
	var want, have []string
	for _, r := range op.reqs {
		want = append(want, r.canon())
	}
	for _, e := range got.entries {
		if e.kind == kind {
			have = append(have, e.canon())
		}
	}
	if d := diffLists(want, have); d != "" {
		res.Fail("C16", "exactly-the-requested-set", "after the bulk set the file does not contain exactly one directive per requested path", "%s: (- requested only, + file only) %s\nfile before:\n%s\nfile after:\n%s", op, d, clipText(bytes0), clipText(out))
		return true
	}
	goV := got.goV
	if bad := checkBlockOrder(p.syntax(), goV); bad != "" {
		res.Fail("C16", "blocks-in-documented-order", "a block is not in its documented order after the bulk set", "%s (go %q): %s\nfile before:\n%s\nfile after:\n%s", op, goV, bad, clipText(bytes0), clipText(out))
		return true
	}
	// comments of kept lines survive (the first existing line of each kept path)
	requested := map[string]bool{}
	for _, r := range op.reqs {
		requested[r.a] = true
	}
	// C16 says that the comments of kept lines survive; which of several existing lines for one path is
	// the kept one is documented ("the first") and enforced by C08, not by C16: here any one of them may
	// be the survivor, tried in list order so that the report names the first.
	var paths []string
	firsts := map[string][]mEntry{}
	for mi, model := range models {
		for _, e := range model.entries {
			if e.kind != kind || !requested[e.a] {
				continue
			}
			if mi == 0 && len(firsts[e.a]) == 0 {
				paths = append(paths, e.a)
			}
			firsts[e.a] = append(firsts[e.a], e)
		}
	}
	for _, path := range paths {
		var fail func()
		ok := false
		for _, e := range firsts[path] {
			e := e
			if e.id == 0 {
				ok = true
				break
			}
			l := findLineByID(p.syntax(), e.id)
			if l == nil {
				if fail == nil {
					fail = func() {
						res.Fail("C16", "kept-line-keeps-comments", "a kept line lost its end-of-line comment", "%s (%s): the first line for %s (#%d) no longer carries its end-of-line comment\nfile before:\n%s\nfile after:\n%s", op, how, e.a, e.id, clipText(bytes0), clipText(out))
					}
				}
				continue
			}
			if !hasLeadComments(l, nil, e.id, e.lead) {
				if fail == nil {
					fail = func() {
						res.Fail("C16", "kept-line-keeps-comments", "a kept line lost a leading comment", "%s: the first line for %s (#%d) lost one of its %d leading comments\nfile before:\n%s\nfile after:\n%s", op, e.a, e.id, e.lead, clipText(bytes0), clipText(out))
					}
				}
				continue
			}
			ok = true
			res.Probes["kept-line-with-comments-checked"]++
			break
		}
		if !ok && fail != nil {
			fail()
			return true
		}
	}
	// the one-uncommented-block clause
	if op.name == "SetRequireSeparateIndirect" && oneUncommentedRequire(pre.syntax()) {
		res.Probes["one-uncommented-require-statement"]++
		for _, st := range p.syntax().Stmt {
			blk, ok := st.(*modfile.LineBlock)
			if !ok || blk.Token[0] != "require" {
				continue
			}
			direct, indirect := 0, 0
			for _, l := range blk.Line {
				if lineIsIndirect(l) {
					indirect++
				} else {
					direct++
				}
			}
			if direct > 0 && indirect > 0 {
				res.Fail("C16", "direct-and-indirect-separated", "direct and indirect requirements share a block although the file had one uncommented require statement", "%s\nfile before:\n%s\nfile after:\n%s", op, clipText(bytes0), clipText(out))
				return true
			}
		}
		// single lines next to a block of the other kind are fine; a lone mixed pair of lines cannot exist
	}
	return false
}

func lineIsIndirect(l *modfile.Line) bool {
	for _, c := range l.Suffix {
		f := strings.Fields(strings.TrimPrefix(c.Token, "//"))
		if len(f) == 1 && f[0] == "indirect" || len(f) > 1 && f[0] == "indirect;" {
			return true
		}
	}
	return false
}

// oneUncommentedRequire: the file's only requirements are one line or block without comments
// (other than indirect markers).
func oneUncommentedRequire(syn *modfile.FileSyntax) bool {
	count := 0
	ok := true
	plain := func(c modfile.Comments) bool {
		if len(c.Before) > 0 || len(c.After) > 0 {
			return false
		}
		for _, s := range c.Suffix {
			if strings.TrimSpace(strings.TrimPrefix(s.Token, "//")) != "indirect" {
				return false
			}
		}
		return true
	}
	for _, st := range syn.Stmt {
		switch st := st.(type) {
		case *modfile.Line:
			if len(st.Token) > 0 && st.Token[0] == "require" {
				count++
				ok = ok && plain(st.Comments)
			}
		case *modfile.LineBlock:
			if len(st.Token) > 0 && st.Token[0] == "require" {
				count++
				ok = ok && plain(st.Comments) && len(st.RParen.Before) == 0 && len(st.RParen.Suffix) == 0
				for _, l := range st.Line {
					ok = ok && plain(l.Comments)
				}
			}
		}
	}
	return count == 1 && ok
}

func init() {
	common := []string{"modfile.Parse/ParseWork (strict), Format, File/WorkFile Add*/Drop*/Set*/Cleanup/SortBlocks"}
	stub := []string{"operation history and persistence points (close with Cleanup+Format, reopen with Parse)", "set/map reference model of the documented operations"}
	core.Register(&core.Prop{
		ID:      "C08",
		Entries: []core.Entry{{Name: "explore", Run: func(src *choice.Src) *core.Result { return runModSession(src, "C08") }}},
		Explore: []string{"explore"},
		Rule: "explore: seeded well-formed go.mod (3/4) or go.work (1/4) with 0-7 statements (single lines and blocks, duplicates, every line with numbered leading and end-of-line comments, block comments, quoted paths), 1-40 operations with valid arguments over small pools, persistence points with probability 1/5 per step, two real sessions (in memory / re-opened) each against its own model. " +
			"Distinct = (starting text, history); non-trivial = at least one operation. NOTE: weak fit - no faults exist to inject; history, persistence points and map order are the only simulator-owned dimensions.",
		Real: common, Stub: stub,
		Assumptions: []string{"operations are applied only under the stated preconditions (Cleanup before bulk setters and at the end, valid arguments, distinct paths in requested lists)", "Use.ModulePath is always empty (it is not written to the file)"},
	})
	core.Register(&core.Prop{
		ID:      "C15",
		Entries: []core.Entry{{Name: "explore", Run: func(src *choice.Src) *core.Result { return runModSession(src, "C15") }}},
		Explore: []string{"explore"},
		Rule: "explore: same sessions as C08; at every persistence point and at the end the exported lists of File/WorkFile after Cleanup are compared as multisets with a strict parse of the formatted bytes (module, go, toolchain, godebug, require+indirect, exclude, replace, retract+rationale, tool, use) and must hold no zero entry. " +
			"Distinct = (starting text, history); non-trivial = at least one operation. NOTE: weak fit - no faults exist to inject.",
		Real: common, Stub: stub,
		Assumptions: []string{"operations are applied only under the stated preconditions", "retraction rationales given to AddRetract have no leading/trailing spaces per line (the file stores them as comments)", "Use.ModulePath is always empty"},
	})
	core.Register(&core.Prop{
		ID:      "C16",
		Entries: []core.Entry{{Name: "explore", Run: c16Run}},
		Explore: []string{"explore"},
		Rule: "explore: seeded starting file (1/3 with comment-free requirements), 0-3 preparatory operations, Cleanup, then one bulk setter (SetRequire, SetRequireSeparateIndirect, SetUse) with a random requested list of distinct paths, repeated 4 times from identical re-parsed state (the setters iterate a Go map whose order the runtime randomises; it is sampled, not controlled). " +
			"Distinct = (pre-state bytes, requested list); non-trivial = every run. NOTE: weak fit - no faults exist to inject.",
		Real: common, Stub: stub,
		Assumptions: []string{"map iteration order is sampled by repetition (4 per run; a replay re-executes the same 4), which makes an order-dependent implementation fail with overwhelming probability rather than certainly"},
	})
	core.ExpectProbes("C08", "session-with-persistence-point")
	core.ExpectProbes("C15", "session-with-persistence-point")
	core.ExpectProbes("C16", "kept-line-with-comments-checked", "one-uncommented-require-statement")
}

func suffixText(l *modfile.Line) string {
	var t []string
	for _, c := range l.Suffix {
		t = append(t, c.Token)
	}
	return strings.Join(t, " ")
}

func lineMentionsIndirect(l *modfile.Line) bool { return strings.Contains(suffixText(l), "indirect") }
