package props

import (
	"bytes"
	"encoding/base64"
	"fmt"
	"math"
	"math/bits"
	"strings"

	"golang.org/x/mod/sumdb/tlog"

	"verif/sim/choice"
	"verif/sim/core"
	"verif/sim/ref"
)

// C09: the log's tree hash and stored-hash layout are exactly RFC 6962.
//
// The system under test is a log store built ONLY from what
// tlog.StoredHashes returns, appended at consecutive positions, reading
// earlier hashes back through a HashReader seam that can fail. After every
// append the store is compared with the reference RFC 6962 tree.

type c09Store struct {
	// zeroCopy: for a run of consecutive indexes the reader hands out a sub-slice of its own array
	// instead of a copy (legal for a HashReader; a caller must not write into what it is given)
	zeroCopy bool
	hashes   []tlog.Hash
	fault    int // 0 none, 1 error, 2 short, 3 long
	fired    bool
	reads    int
	virtual  *ref.Tree // if set, reads are served from a virtual uniform tree instead
	// hook, if set, runs while the read is "in flight" (the caller is parked inside ReadHashes):
	// the interleaving seam of c09Interleave
	hook func(idx []int64)
}

func (s *c09Store) ReadHashes(idx []int64) ([]tlog.Hash, error) {
	s.reads++
	if s.hook != nil {
		s.hook(idx)
	}
	if s.zeroCopy && s.virtual == nil && s.fault == 0 && len(idx) > 0 {
		consecutive := idx[0] >= 0 && idx[len(idx)-1] < int64(len(s.hashes))
		for i := 1; i < len(idx); i++ {
			consecutive = consecutive && idx[i] == idx[i-1]+1
		}
		if consecutive {
			a, b := idx[0], idx[len(idx)-1]+1
			return s.hashes[a:b:b], nil
		}
	}
	out := make([]tlog.Hash, len(idx))
	for i, x := range idx {
		if s.virtual != nil {
			if x < 0 || x >= ref.StoredCount(s.virtual.N()) {
				return nil, fmt.Errorf("index %d beyond the store", x)
			}
			out[i] = tlog.Hash(s.virtual.StoredHash(x))
			continue
		}
		if x < 0 || x >= int64(len(s.hashes)) {
			return nil, fmt.Errorf("index %d beyond the store (%d)", x, len(s.hashes))
		}
		out[i] = s.hashes[x]
	}
	switch s.fault {
	case 1:
		s.fired = true
		return nil, fmt.Errorf("simulated store read error")
	case 2:
		if len(out) > 0 {
			s.fired = true
			return out[:len(out)-1], nil
		}
	case 3:
		s.fired = true
		return append(out, tlog.Hash{}), nil
	case 4: // an error together with a result of the right length that is only partly filled in
		if len(out) > 0 {
			s.fired = true
			for i := len(out) / 2; i < len(out); i++ {
				out[i] = tlog.Hash{}
			}
			return out, fmt.Errorf("simulated store read error after %d of %d hashes", len(out)/2, len(out))
		}
	}
	return out, nil
}

var c09Runes = []string{"a", "Z", "0", " ", "/", "é", "世", " ", "�", "\U0001F600", "=", "\t"}

// c09Text generates a valid record text: lines of printable characters, each newline terminated, no empty line.
func c09Text(src *choice.Src) string {
	var b strings.Builder
	lines := src.Weighted(5, 3, 1) + 1
	for l := 0; l < lines; l++ {
		var n int
		switch src.Weighted(6, 2, 2) {
		case 0:
			n = src.Range(1, 40)
		case 1: // around buffer-size boundaries
			n = []int{63, 64, 127, 128, 255, 256, 257, 258, 511, 512, 1023, 1024, 4095, 4096}[src.Intn(14)] - src.Intn(3)
		default:
			n = src.Range(1, 300)
		}
		width := 0
		for width < n {
			r := c09Runes[src.Weighted(20, 5, 5, 3, 3, 2, 2, 1, 2, 1, 1, 0)]
			if r == "\t" {
				r = "x"
			}
			if width+len(r) > n {
				r = "x"
			}
			b.WriteString(r)
			width += len(r)
		}
		b.WriteString("\n")
	}
	return b.String()
}

func c09Explore(src *choice.Src) *core.Result {
	res := core.NewResult()
	maxN := 120
	if !core.Quick() && src.Bool(1, 5) {
		maxN = 2000
	}
	if src.Bool(1, 2) {
		maxN = 20
	}
	n := src.Range(1, maxN)
	st := &c09Store{zeroCopy: src.Bool(1, 3)}
	tr := ref.NewTree()
	faultEvery := src.Weighted(3, 1, 1)
	res.Logf("C09 history of %d appends", n)
	var texts []string
	for i := int64(0); i < int64(n); i++ {
		var data []byte
		if src.Bool(1, 3) || n <= 20 {
			data = []byte(c09Text(src))
		} else {
			data = []byte(fmt.Sprintf("m%d v1.%d.0 h1:%x\n", i%5, i, choice.Mix(uint64(i), 77)))
		}
		texts = append(texts, string(data))
		// append with optional failing reader: the append must fail and leave the store unchanged, then succeed on retry
		var underFault []tlog.Hash // what StoredHashes returned without an error although a read failed
		underFaultKind := 0
		if faultEvery > 0 && src.Bool(1, 4*faultEvery) {
			st.fault, st.fired = src.Range(1, 4), false
			hs, err := tlog.StoredHashes(i, data, st)
			if st.fired {
				res.Faults[[]string{"", "store-read-error", "store-read-short", "store-read-long", "store-read-error-with-partial-result"}[st.fault]]++
				if err == nil {
					// allowed only if the result is right all the same (compared with the honest append below)
					underFault, underFaultKind = append([]tlog.Hash{}, hs...), st.fault
				}
			}
			st.fault = 0
		}
		hs, err := tlog.StoredHashes(i, data, st)
		if underFault != nil && err == nil && !eqTlogHashes(underFault, hs) {
			res.Fail("C09", "reader-fault-surfaces", "StoredHashes returned wrong hashes, and no error, although its HashReader failed or returned the wrong number of hashes",
				"appending record %d: store fault %d delivered, StoredHashes returned %d hashes and no error; they differ from what the same append returns on a healthy reader", i, underFaultKind, len(underFault))
		}
		if err != nil {
			res.Fail("C09", "append-succeeds", "StoredHashes failed on an honest store", "record %d: %v", i, err)
			break
		}
		if int64(len(st.hashes)) != tlog.StoredHashIndex(0, i) {
			res.Fail("C09", "append-position", "record's hashes do not start at StoredHashIndex(0, n)", "record %d: store has %d hashes, StoredHashIndex(0,%d)=%d", i, len(st.hashes), i, tlog.StoredHashIndex(0, i))
		}
		st.hashes = append(st.hashes, hs...)
		tr.Append(data)
		size := i + 1
		if got, want := int64(len(st.hashes)), ref.StoredCount(size); got != want {
			res.Fail("C09", "store-length", "store length is not the documented count", "after %d records the dense store holds %d hashes, documented count is %d", size, got, want)
			break
		}
		if got := tlog.StoredHashCount(size); got != ref.StoredCount(size) {
			res.Fail("C09", "stored-hash-count", "StoredHashCount disagrees with the documented count", "StoredHashCount(%d) = %d, want %d", size, got, ref.StoredCount(size))
		}
		// new positions: coordinates and content
		for p := int64(len(st.hashes) - len(hs)); p < int64(len(st.hashes)); p++ {
			l, o := tlog.SplitStoredHashIndex(p)
			rl, ro := ref.StoredCoord(p)
			if l != rl || o != ro {
				res.Fail("C09", "index-bijection", "SplitStoredHashIndex disagrees with the storage order", "position %d: got (level %d, offset %d), reference (level %d, offset %d)", p, l, o, rl, ro)
			} else if back := tlog.StoredHashIndex(l, o); back != p {
				res.Fail("C09", "index-bijection", "StoredHashIndex(SplitStoredHashIndex(p)) != p", "position %d -> (%d,%d) -> %d", p, l, o, back)
			}
			if ref.Hash(st.hashes[p]) != tr.Sub(rl, ro) {
				res.Fail("C09", "stored-hash-is-subtree-hash", "a stored hash is not the RFC 6962 hash of its complete subtree",
					"after %d records: position %d (level %d, offset %d) holds a hash different from the reference subtree hash (record %d has %d bytes)", size, p, rl, ro, i, len(data))
			}
		}
		// tree hash for sizes m <= size: all when small, the newest and a sample otherwise
		ms := []int64{size}
		if size <= 128 {
			ms = ms[:0]
			for m := int64(0); m <= size; m++ {
				ms = append(ms, m)
			}
		} else {
			ms = append(ms, int64(src.Uint64n(uint64(size))), size-1, size/2)
		}
		if res.Violation == nil {
			for _, m := range ms {
				th, err := tlog.TreeHash(m, st)
				if err != nil || ref.Hash(th) != tr.MTH(m) {
					res.Fail("C09", "tree-hash-is-mth", "TreeHash is not the RFC 6962 Merkle tree hash", "after %d records: TreeHash(%d) = %v, %v; differs from the reference MTH", size, m, th, err)
					break
				}
			}
		}
		if res.Violation != nil {
			break
		}
	}
	// reads must not have side effects on the store: every stored hash is still the reference hash
	if res.Violation == nil {
		for p := int64(0); p < int64(len(st.hashes)); p++ {
			if ref.Hash(st.hashes[p]) != tr.StoredHash(p) {
				l, o := ref.StoredCoord(p)
				res.Fail("C09", "stored-hash-is-subtree-hash", "a stored hash changed after it was written (a read modified the store)",
					"after %d records: position %d (level %d, offset %d) no longer holds the hash that was stored there; the store hands out sub-slices of its own array (zero copy: %v)", len(texts), p, l, o, st.zeroCopy)
				break
			}
		}
	}
	res.Steps = st.reads

	// ---- text encodings ----
	for i := 0; i < 3; i++ {
		var h tlog.Hash
		copy(h[:], src.Bytes(32))
		tn := int64(src.Uint64n(1 << 62))
		if src.Bool(1, 2) {
			tn = int64(src.Intn(1000))
		}
		tree := tlog.Tree{N: tn, Hash: h}
		text := tlog.FormatTree(tree)
		if string(text) != ref.FormatTreeText(tn, ref.Hash(h)) {
			res.Fail("C09", "tree-format", "FormatTree is not the documented encoding", "FormatTree(%d) = %q", tn, text)
		}
		back, err := tlog.ParseTree(text)
		if err != nil || back != tree {
			res.Fail("C09", "tree-roundtrip", "ParseTree(FormatTree(x)) != x", "tree %d/%v -> %q -> %+v, %v", tn, h, text, back, err)
		}
		if hb, err := tlog.ParseHash(h.String()); err != nil || hb != h || h.String() != base64.StdEncoding.EncodeToString(h[:]) {
			res.Fail("C09", "hash-roundtrip", "ParseHash(h.String()) != h", "%v -> %v, %v", h, hb, err)
		}
		js, _ := h.MarshalJSON()
		var hj tlog.Hash
		if err := hj.UnmarshalJSON(js); err != nil || hj != h {
			res.Fail("C09", "hash-roundtrip", "Hash JSON round trip fails", "%s -> %v, %v", js, hj, err)
		}
		id := int64(src.Uint64n(1 << 62))
		if src.Bool(1, 2) {
			id = int64(src.Intn(100))
		}
		rt := c09Text(src)
		if len(texts) > 0 && src.Bool(1, 2) {
			rt = texts[src.Intn(len(texts))]
		}
		rest := string(ref.SignNote(ref.FormatTreeText(tn, ref.Hash(h)), ref.NewKey("k", 5)))
		if src.Bool(1, 3) {
			rest = ""
		}
		if !ref.ValidRecordText(rt) {
			core.SetHarnessError("c09: generated an invalid record text")
		}
		msg, err := tlog.FormatRecord(id, []byte(rt))
		if err != nil || string(msg) != ref.FormatRecordMsg(id, rt) {
			res.Fail("C09", "record-format", "FormatRecord refuses or mis-encodes a valid record text", "FormatRecord(%d, %q) = %q, %v", id, clip(rt), clip(string(msg)), err)
			continue
		}
		bid, btext, brest, err := tlog.ParseRecord(append(append([]byte(nil), msg...), rest...))
		if err != nil || bid != id || string(btext) != rt || string(brest) != rest {
			res.Fail("C09", "record-roundtrip", "ParseRecord(FormatRecord(id, text) + rest) != (id, text, rest)", "id %d text %q: got id %d text %q rest %d bytes, %v", id, clip(rt), bid, clip(string(btext)), len(brest), err)
		}
		if rh := tlog.RecordHash([]byte(rt)); !bytes.Equal(rh[:], refLeaf(rt)) {
			res.Fail("C09", "record-hash", "RecordHash is not SHA-256(0x00 || data)", "record text of %d bytes", len(rt))
		}
	}

	// ---- coordinates far beyond any store that fits in memory ----
	for i := 0; i < 6; i++ {
		l := src.Intn(61)
		maxO := uint64(1) << uint(60-l)
		o := int64(src.Uint64n(maxO))
		if src.Bool(1, 3) { // near powers of two of the record number, where carries happen
			o = int64(uint64(1)<<uint(src.Intn(61-l))) - 1 + int64(src.Intn(3))
			if uint64(o) >= maxO {
				o = int64(maxO) - 1
			}
		}
		want := ref.StoredIndex(l, o)
		got := tlog.StoredHashIndex(l, o)
		if got != want {
			res.Fail("C09", "index-bijection", "StoredHashIndex disagrees with the storage order", "StoredHashIndex(%d, %d) = %d, reference %d", l, o, got, want)
			continue
		}
		var bl int
		var bo int64
		func() {
			defer func() {
				if e := recover(); e != nil {
					res.Fail("C09", "index-bijection", "SplitStoredHashIndex panics on a valid position", "SplitStoredHashIndex(%d) (level %d offset %d): %v", want, l, o, e)
					bl, bo = l, o
				}
			}()
			bl, bo = tlog.SplitStoredHashIndex(want)
		}()
		if bl != l || bo != o {
			res.Fail("C09", "index-bijection", "SplitStoredHashIndex is not the inverse of StoredHashIndex", "(%d, %d) -> %d -> (%d, %d)", l, o, want, bl, bo)
		}
		if (o+1)<<uint(l) >= 1<<32 {
			res.Probes["coordinate-beyond-2^32-records"]++
		}
	}
	// the last positions an int64 can name: records just below and at 2^62 (the position of record 2^62
	// is exactly MaxInt64); reference arithmetic in uint64
	for i := 0; i < 2 && res.Violation == nil; i++ {
		r := uint64(1)<<62 - uint64(src.Intn(41))
		tz := bits.TrailingZeros64(r + 1)
		l := 0
		if tz > 0 && src.Bool(1, 2) {
			l = src.Intn(tz + 1)
		}
		idx := 2*r - uint64(bits.OnesCount64(r)) + uint64(l)
		if idx > math.MaxInt64 {
			continue
		}
		off := int64((r+1)>>uint(l)) - 1
		var gl int
		var go_ int64
		var back int64
		if !guardCall(res, "C09", fmt.Sprintf("SplitStoredHashIndex(%d)", idx), func() { gl, go_ = tlog.SplitStoredHashIndex(int64(idx)) }) {
			break
		}
		if gl != l || go_ != off {
			res.Fail("C09", "index-bijection", "SplitStoredHashIndex disagrees with the storage order", "position %d (record %d, near 2^62): got (level %d, offset %d), reference (level %d, offset %d)", idx, r, gl, go_, l, off)
		}
		if guardCall(res, "C09", "StoredHashIndex near 2^62", func() { back = tlog.StoredHashIndex(l, off) }) && uint64(back) != idx {
			res.Fail("C09", "index-bijection", "StoredHashIndex disagrees with the storage order", "StoredHashIndex(%d, %d) = %d, reference %d", l, off, back, idx)
		}
		res.Probes["position-near-MaxInt64"]++
	}
	for i := 0; i < 3; i++ {
		big := int64(src.Uint64n(1 << 61))
		if src.Bool(1, 2) {
			big = int64(1)<<uint(src.Range(1, 60)) + int64(src.Intn(5)) - 2
		}
		if big < 0 {
			big = 0
		}
		if got, want := tlog.StoredHashCount(big), ref.StoredCount(big); got != want {
			res.Fail("C09", "stored-hash-count", "StoredHashCount disagrees with the documented count", "StoredHashCount(%d) = %d, want %d (= 2n - popcount(n))", big, got, want)
		}
	}
	// virtual uniform log: tree hash and per-record stored hashes at sizes that cannot be materialised
	{
		big := int64(1)<<uint(src.Range(10, 44)) + int64(src.Uint64n(1<<20)) - 1<<19
		if big < 2 {
			big = 2
		}
		leaf := ref.LeafHash([]byte("u\n"))
		vt := ref.NewUniformTree(big, leaf)
		vs := &c09Store{virtual: vt}
		th, err := tlog.TreeHash(big, vs)
		if err != nil || ref.Hash(th) != vt.MTH(big) {
			res.Fail("C09", "tree-hash-is-mth", "TreeHash is not the RFC 6962 Merkle tree hash", "virtual log of %d identical records: TreeHash = %v, %v", big, th, err)
		}
		rec := big - 1 - int64(src.Uint64n(uint64(big)))%1024
		if rec < 0 {
			rec = 0
		}
		if src.Bool(1, 2) { // a record that completes many subtrees
			rec = (big-1)&^(int64(1)<<uint(src.Intn(20))-1) - 1
			if rec < 0 {
				rec = big - 1
			}
		}
		hs, err := tlog.StoredHashesForRecordHash(rec, tlog.Hash(leaf), vs)
		wantN := 1 + bits.TrailingZeros64(uint64(rec+1))
		if err != nil || len(hs) != wantN {
			res.Fail("C09", "stored-hashes-count", "StoredHashes returns the wrong number of hashes", "virtual log: record %d: %d hashes, %v; want %d", rec, len(hs), err, wantN)
		} else {
			for lv := 0; lv < wantN; lv++ {
				if ref.Hash(hs[lv]) != vt.Sub(lv, 0) {
					res.Fail("C09", "stored-hash-is-subtree-hash", "a stored hash is not the RFC 6962 hash of its complete subtree", "virtual log: record %d: hash #%d is not the level-%d subtree hash", rec, lv, lv)
					break
				}
			}
		}
		if big >= 1<<32 {
			res.Probes["virtual-log-above-2^32"]++
		}
	}
	lens := uint64(0)
	for _, t := range texts {
		lens = choice.Mix(lens, uint64(len(t)))
	}
	res.Sig = choice.Mix(uint64(n), res.Digest, choice.MixString(fmt.Sprint(res.Faults)), uint64(len(st.hashes)), lens)
	res.Trivial = n < 2
	res.Sample = map[string]interface{}{"appends": n, "stored_hashes": len(st.hashes), "store_read_faults": res.Faults, "sample_record_bytes": sampleLens(texts)}
	return res
}

// c09Interleave: several logs live in one process and their appends and tree-hash reads interleave at the
// only point where a caller can be suspended, the HashReader seam: while one log's operation is parked
// inside ReadHashes, the tape decides which whole operations of the other logs (and tree-hash reads of the
// same log) run before the read returns. Some reads fail. Every log must still be exactly its own
// RFC 6962 tree; an index list handed to a reader must not change while the read is in flight.
type c09Log struct {
	name  string
	st    *c09Store
	tr    *ref.Tree
	n     int64
	busy  bool // an append of this log is parked in its reader
	fails int
}

type c09Inter struct {
	src    *choice.Src
	res    *core.Result
	logs   []*c09Log
	depth  int
	nested int
	maxD   int
	budget int
}

func (w *c09Inter) parked(l *c09Log, idx []int64) {
	if w.depth >= w.maxD || w.budget <= 0 || w.res.Violation != nil || !w.src.Bool(1, 3) {
		return
	}
	before := append([]int64(nil), idx...)
	k := w.src.Range(1, 3)
	w.depth++
	for i := 0; i < k && w.res.Violation == nil; i++ {
		w.nested++
		w.step(w.logs[w.src.Intn(len(w.logs))])
	}
	w.depth--
	for i := range before {
		if i >= len(idx) || idx[i] != before[i] {
			w.res.Fail("C09", "read-arguments-stable", "the index list handed to a HashReader changed while the read was in flight (another log's operation ran meanwhile)",
				"log %s: reader was asked for %v; after %d operations of other logs ran during the read the same slice reads %v", l.name, before, k, idx)
			return
		}
	}
}

func (w *c09Inter) step(l *c09Log) {
	w.budget--
	res := w.res
	if l.busy || w.src.Bool(1, 4) {
		// read-only operation: tree hash of a size already stored
		if l.n == 0 {
			return
		}
		m := int64(w.src.Uint64n(uint64(l.n))) + 1
		sf := l.st.fault // a failing append of this log may be parked further up; this read is an honest one
		l.st.fault = 0
		th, err := tlog.TreeHash(m, l.st)
		l.st.fault = sf
		if err != nil || ref.Hash(th) != l.tr.MTH(m) {
			res.Fail("C09", "tree-hash-is-mth", "TreeHash is not the RFC 6962 Merkle tree hash", "log %s (one of %d logs in the process, nesting depth %d): TreeHash(%d) = %v, %v; differs from the reference", l.name, len(w.logs), w.depth, m, th, err)
		}
		return
	}
	data := []byte(fmt.Sprintf("%s/m v1.%d.0 h1:%x\n", l.name, l.n, choice.Mix(uint64(l.n), uint64(len(l.name)))))
	var underFault []tlog.Hash
	underFaultKind := 0
	if w.src.Bool(1, 6) {
		// a failing read first: must surface, must leave nothing behind that later operations trip over
		l.st.fault, l.st.fired = w.src.Range(1, 4), false
		l.busy = true
		hs, err := tlog.StoredHashes(l.n, data, l.st)
		l.busy = false
		if l.st.fired {
			res.Faults[[]string{"", "store-read-error", "store-read-short", "store-read-long", "store-read-error-with-partial-result"}[l.st.fault]]++
			l.fails++
			if err == nil {
				underFault, underFaultKind = append([]tlog.Hash{}, hs...), l.st.fault
			}
		}
		l.st.fault = 0
		if res.Violation != nil {
			return
		}
	}
	l.busy = true
	hs, err := tlog.StoredHashes(l.n, data, l.st)
	l.busy = false
	if underFault != nil && err == nil && !eqTlogHashes(underFault, hs) {
		res.Fail("C09", "reader-fault-surfaces", "StoredHashes returned wrong hashes, and no error, although its HashReader failed or returned the wrong number of hashes",
			"log %s record %d: store fault %d delivered, StoredHashes returned %d hashes and no error; they differ from what the same append returns on a healthy reader", l.name, l.n, underFaultKind, len(underFault))
		return
	}
	if res.Violation != nil {
		return
	}
	if err != nil {
		res.Fail("C09", "append-succeeds", "StoredHashes failed on an honest store", "log %s record %d (one of %d logs in the process, %d earlier failed reads in the process): %v", l.name, l.n, len(w.logs), w.totalFails(), err)
		return
	}
	if int64(len(l.st.hashes)) != ref.StoredIndex(0, l.n) {
		core.SetHarnessError("c09 interleave: store length out of step")
		return
	}
	want := 1 + bits.TrailingZeros64(uint64(l.n+1))
	if len(hs) != want {
		res.Fail("C09", "stored-hashes-count", "StoredHashes returns the wrong number of hashes", "log %s record %d: %d hashes, want %d", l.name, l.n, len(hs), want)
		return
	}
	l.tr.Append(data)
	for lv := 0; lv < want; lv++ {
		if ref.Hash(hs[lv]) != l.tr.Sub(lv, l.n>>uint(lv)) {
			res.Fail("C09", "stored-hash-is-subtree-hash", "a stored hash is not the RFC 6962 hash of its complete subtree",
				"log %s record %d: returned hash #%d is not the level-%d subtree hash of its own log (%d logs in the process, %d operations of other logs ran inside reads so far, %d earlier failed reads)", l.name, l.n, lv, lv, len(w.logs), w.nested, w.totalFails())
			return
		}
	}
	l.st.hashes = append(l.st.hashes, hs...)
	l.n++
}

func (w *c09Inter) totalFails() int {
	t := 0
	for _, l := range w.logs {
		t += l.fails
	}
	return t
}

func c09Interleave(src *choice.Src) *core.Result {
	res := core.NewResult()
	w := &c09Inter{src: src, res: res, maxD: src.Range(1, 3), budget: src.Range(10, 150)}
	nl := src.Range(2, 4)
	for i := 0; i < nl; i++ {
		l := &c09Log{name: string(rune('A' + i)), st: &c09Store{zeroCopy: src.Bool(1, 3)}, tr: ref.NewTree()}
		l.st.hook = func(idx []int64) { w.parked(l, idx) }
		w.logs = append(w.logs, l)
	}
	res.Logf("C09 interleave: %d logs, nesting up to %d", nl, w.maxD)
	for w.budget > 0 && res.Violation == nil {
		w.step(w.logs[src.Intn(nl)])
	}
	total := int64(0)
	reads := 0
	for _, l := range w.logs {
		l.st.hook = nil
		total += l.n
		reads += l.st.reads
		if res.Violation != nil {
			break
		}
		for p := int64(0); p < int64(len(l.st.hashes)); p++ {
			if ref.Hash(l.st.hashes[p]) != l.tr.StoredHash(p) {
				res.Fail("C09", "stored-hash-is-subtree-hash", "a stored hash changed after it was written", "log %s: position %d no longer holds the hash stored there", l.name, p)
				break
			}
		}
		if th, err := tlog.TreeHash(l.n, l.st); l.n > 0 && (err != nil || ref.Hash(th) != l.tr.MTH(l.n)) {
			res.Fail("C09", "tree-hash-is-mth", "TreeHash is not the RFC 6962 Merkle tree hash", "log %s: final TreeHash(%d) = %v, %v", l.name, l.n, th, err)
		}
	}
	if w.nested > 0 {
		res.Probes["operation-ran-inside-another-logs-read"]++
	}
	if w.nested > 0 && w.totalFails() > 0 {
		res.Probes["interleaved-after-failed-read"]++
	}
	res.Steps = reads
	res.Sig = choice.Mix(uint64(nl), uint64(total), uint64(w.nested), res.Digest, choice.MixString(fmt.Sprint(res.Faults)))
	res.Trivial = total < 2
	res.Sample = map[string]interface{}{"logs": nl, "appends": total, "operations_nested_in_reads": w.nested, "store_read_faults": res.Faults}
	return res
}

func eqTlogHashes(a, b []tlog.Hash) bool {
	if len(a) != len(b) {
		return false
	}
	for i := range a {
		if a[i] != b[i] {
			return false
		}
	}
	return true
}

func sampleLens(t []string) []int {
	var out []int
	for i, s := range t {
		if i >= 8 {
			break
		}
		out = append(out, len(s))
	}
	return out
}

func clip(s string) string {
	if len(s) > 80 {
		return s[:80] + "..."
	}
	return s
}

func refLeaf(text string) []byte {
	h := ref.LeafHash([]byte(text))
	return h[:]
}

func init() {
	core.Register(&core.Prop{
		ID:      "C09",
		Entries: []core.Entry{{Name: "explore", Run: c09Explore}, {Name: "interleave", Run: c09Interleave}},
		Explore: []string{"explore", "explore", "interleave"},
		Rule: "explore: seeded append histories of 1-120 records (thorough up to 2000) with record texts of 1-3 lines incl. Unicode, U+FFFD and lengths around 64..4096, store reads failing at random appends; then text-encoding round trips, (level, offset) coordinates up to 2^60 records and a virtual uniform log of up to 2^44 records. " +
			"interleave (every third run): 2-4 logs in one process; while one log's append or tree-hash read is parked inside its HashReader, the tape runs whole operations of the other logs (nested up to 3 deep), some with failing reads; every log must stay its own RFC 6962 tree and a reader's index list must not change during the read. " +
			"Distinct = (history length, event digest); non-trivial = at least 2 appends. NOTE: the only injectable fault is the HashReader seam of StoredHashes/TreeHash; the layout laws themselves are pure relations checked against the reference.",
		Real:        []string{"tlog.StoredHashes, StoredHashesForRecordHash, TreeHash, StoredHashIndex, SplitStoredHashIndex, StoredHashCount, RecordHash", "tlog.FormatTree/ParseTree, FormatRecord/ParseRecord, Hash.String/ParseHash/JSON"},
		Stub:        []string{"dense hash store with failing reads", "reference RFC 6962 tree (materialised and virtual uniform)"},
		Assumptions: []string{"SHA-256 collision resistance", "log sizes are exercised up to 2^61 records and positions up to MaxInt64 (the position of record 2^62); counts and positions of larger logs do not fit in int64 and the API has no way to report that"},
	})
	core.ExpectProbes("C09", "coordinate-beyond-2^32-records", "virtual-log-above-2^32", "operation-ran-inside-another-logs-read", "interleaved-after-failed-read")
}
