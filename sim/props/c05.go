package props

import (
	"archive/zip"
	"bytes"
	"fmt"
	"io"
	"io/fs"
	"os"
	"path/filepath"
	"sort"
	"strings"

	"golang.org/x/mod/module"
	modzip "golang.org/x/mod/zip"

	"verif/sim/choice"
	"verif/sim/core"
	"verif/sim/ref"
)

// C05: a created module zip always extracts to exactly the files that belong in it.
//
// Pipeline per run: simulated source tree (zip.File seam) -> real zip.Create
// -> simulated writer ("disk") -> stored bytes -> real zip.CheckZip -> real
// zip.Unzip into a sandbox directory on the real file system -> compare.
// Faults are placed inside the operation: writer errors and short writes at
// byte k, Open errors, reader errors after k bytes, files that grew or shrank
// between Lstat and Open, Lstat errors.

type simWriter struct {
	buf     bytes.Buffer
	failAt  int // >=0: writes fail once this many bytes have been accepted
	short   bool
	fired   bool
	writes  int
	maxSize int
}

func (w *simWriter) Write(p []byte) (int, error) {
	w.writes++
	if w.failAt >= 0 && w.buf.Len()+len(p) > w.failAt {
		n := w.failAt - w.buf.Len()
		if n < 0 {
			n = 0
		}
		w.buf.Write(p[:n])
		w.fired = true
		if w.short {
			return n, nil // short write without an error: the io.Writer contract is broken by the device
		}
		return n, errSimIO
	}
	return w.buf.Write(p)
}

// sandbox is a scratch directory on the real file system, removed after the run.
type sandbox struct{ root string }

func newSandbox() (*sandbox, error) {
	root, err := mkScratch("a")
	if err != nil {
		return nil, err
	}
	return &sandbox{root}, nil
}
func (s *sandbox) close() { os.RemoveAll(s.root) }

// readTree returns rel path -> content for every regular file below dir.
func readTree(dir string) (map[string]string, error) {
	out := map[string]string{}
	err := filepath.Walk(dir, func(p string, info os.FileInfo, err error) error {
		if err != nil {
			return err
		}
		if info.IsDir() {
			return nil
		}
		rel, _ := filepath.Rel(dir, p)
		if !info.Mode().IsRegular() {
			out[filepath.ToSlash(rel)] = "<irregular " + info.Mode().String() + ">"
			return nil
		}
		b, err := os.ReadFile(p)
		if err != nil {
			return err
		}
		out[filepath.ToSlash(rel)] = string(b)
		return nil
	})
	if os.IsNotExist(err) {
		return out, nil
	}
	return out, err
}

func archiveEntries(b []byte) ([]ref.ZipEntry, map[string]string, error) {
	zr, err := zip.NewReader(bytes.NewReader(b), int64(len(b)))
	if err != nil {
		return nil, nil, err
	}
	var es []ref.ZipEntry
	content := map[string]string{}
	for _, f := range zr.File {
		es = append(es, ref.ZipEntry{Name: f.Name, Size: f.UncompressedSize64, IsDir: strings.HasSuffix(f.Name, "/")})
		if strings.HasSuffix(f.Name, "/") {
			continue // directory entries are ignored by the package; their content and declared size do not matter
		}
		rc, err := f.Open()
		if err != nil {
			return es, content, err
		}
		data, err := io.ReadAll(io.LimitReader(rc, 64<<20))
		rc.Close()
		if err != nil {
			return es, content, err
		}
		content[f.Name] = string(data)
	}
	return es, content, nil
}

func describeMap(m map[string]string) string {
	var ks []string
	for k, v := range m {
		ks = append(ks, fmt.Sprintf("%q(%d bytes)", k, len(v)))
	}
	sort.Strings(ks)
	return "[" + strings.Join(ks, " ") + "]"
}

func c05Explore(src *choice.Src) *core.Result {
	res := core.NewResult()
	// most runs use mostly well-formed trees so that Create gets to write archives; some are fully adversarial
	style := []int{0, 0, 0, 1, 1, 2, 8}[src.Intn(7)]
	t := genZipTreeStyle(src, []int{25, 8, 4}[src.Weighted(3, 2, 2)], style)
	// make collisions and omissions less dominant: most runs use a mostly well-formed tree
	mi := src.Weighted(20, 3, 3, 2, 2, 2, 1, 1, 1, 1, 1)
	mod := zipModules[mi]
	faultClass := src.Bool(1, 2)
	w := &simWriter{failAt: -1}
	delivered := func() map[string]int {
		d := map[string]int{}
		for k, v := range t.stats.faultsDelivered {
			d[k] = v
		}
		if w.fired {
			if w.short {
				d["short-write"]++
			} else {
				d["write-error"]++
			}
		}
		return d
	}
	shrunk := map[string]bool{}
	faultNote := ""
	if faultClass && len(t.files) > 0 {
		for i, nf := 0, src.Weighted(0, 5, 2, 1); i < nf; i++ {
			f := t.files[src.Intn(len(t.files))]
			switch src.Weighted(3, 2, 3, 3, 3, 1) {
			case 0:
				w.failAt = src.Intn(4000)
				w.short = src.Bool(1, 3)
			case 1:
				f.openErr = errSimIO
				if src.Bool(1, 2) {
					// the file vanished between the listing and Open: the error every os.Open reports then
					f.openErr = &fs.PathError{Op: "open", Path: f.path, Err: fs.ErrNotExist}
				}
			case 2:
				f.readErr = src.Intn(len(f.content) + 1)
			case 3: // the file grew between Lstat and Open
				f.content = append(append([]byte(nil), f.content...), []byte(strings.Repeat("+", 1+src.Intn(50)))...)
			case 4: // the file shrank
				if len(f.content) > 0 {
					f.content = f.content[:src.Intn(len(f.content))]
					shrunk[f.path] = true
				}
			default:
				f.lstatErr = errSimIO
			}
		}
	} else if src.Bool(1, 10) {
		// truthful sizes at and above the documented limits (the check rejects them before any byte is read)
		for _, f := range t.files {
			if f.path == "go.mod" || f.path == "LICENSE" {
				if f.path == "LICENSE" {
					f.size, f.virtual, f.content = []int64{16 << 20, 16<<20 + 1}[src.Intn(2)], true, nil
				}
			} else if src.Bool(1, 20) {
				f.size, f.virtual, f.content = 500<<20+1, true, nil
			}
		}
	}
	// slow readers: data arrives in small pieces; some readers return the last piece together with io.EOF
	for _, f := range t.files {
		if src.Bool(1, 8) {
			f.chunk = 1 + src.Intn(7)
		}
		if src.Bool(1, 6) {
			f.eofWithData = true
		}
	}
	list := t.list()
	prefix := mod.m.Path + "@" + mod.m.Version + "/"
	res.Logf("C05 run: module %s@%s (valid=%v), %d files, fault class %v", mod.m.Path, mod.m.Version, mod.valid, len(t.files), faultClass)

	var cf modzip.CheckedFiles
	var cfErr, cerr error
	if !c05Guard(res, "CheckFiles", func() { cf, cfErr = modzip.CheckFiles(list) }) {
		return res
	}
	beforeCreate := fmt.Sprint(pathsOfList(list))
	// A busy process: an earlier Create of its own failed while copying a file, and another of its
	// goroutines creates a second archive while this Create is inside a Read of one of its files.
	if src.Bool(1, 4) {
		var host *simFile
		for _, f := range t.files {
			if f.path != "go.mod" && !f.virtual && len(f.content) > 0 && f.mode.IsRegular() {
				host = f
				break
			}
		}
		if host != nil {
			ostats := &zipIOStats{}
			bad := &simFile{path: "broken.txt", mode: 0o644, content: []byte(strings.Repeat("x", 64)), size: 64, readErr: 32, stats: ostats}
			if err := modzip.Create(io.Discard, zipModules[0].m, []modzip.File{bad}); err == nil {
				res.Fail("C05", "archive-readable", "Create reported success although a file could not be read", "one file of 64 bytes whose reads fail after 32 bytes")
				return res
			}
			odata := strings.Repeat("written meanwhile\n", 40)
			oprefix := zipModules[0].m.Path + "@" + zipModules[0].m.Version + "/"
			host.meanwhile = func() {
				var ob bytes.Buffer
				of := &simFile{path: "meanwhile.txt", mode: 0o644, content: []byte(odata), size: int64(len(odata)), readErr: -1, stats: ostats}
				err := modzip.Create(&ob, zipModules[0].m, []modzip.File{of})
				var got map[string]string
				if err == nil {
					_, got, err = archiveEntries(ob.Bytes())
				}
				if err != nil || len(got) != 1 || got[oprefix+"meanwhile.txt"] != odata {
					res.Fail("C05", "archive-has-exactly-valid-files", "an archive created while another Create call is reading a file does not hold its file", "Create of one file meanwhile.txt (%d bytes): error %v, archive %s", len(odata), err, describeMap(got))
				}
			}
			res.Probes["create-inside-create"]++
		}
	}
	if !c05Guard(res, "Create", func() { cerr = modzip.Create(w, mod.m, list) }) {
		return res
	}
	res.Steps = t.stats.lstats + t.stats.opens + t.stats.reads + w.writes
	if after := fmt.Sprint(pathsOfList(list)); after != beforeCreate {
		// not a violation by itself (the property does not promise it); recorded because it explains later mismatches
		res.Probes["caller-list-modified"]++
		res.Logf("note: the caller's file list was modified: before %s after %s", beforeCreate, after)
	}
	d := delivered()
	for k, v := range d {
		res.Faults[k] += v
	}
	hardFault := d["write-error"] > 0 || d["short-write"] > 0 || d["open-error"] > 0 || d["read-error"] > 0 || d["lstat-error"] > 0 || d["grew"] > 0
	// a read/open fault consumed only while sniffing the go version is not a fault of Create proper
	switch {
	case !mod.valid:
		if cerr == nil {
			res.Fail("C05", "module-version-checked", "Create accepted an invalid module path/version pair", "%s@%s", mod.m.Path, mod.m.Version)
		}
		return c05Done(res, t, mod.m, faultClass)
	case !faultClass:
		if (cerr == nil) != (cfErr == nil) {
			res.Fail("C05", "create-iff-check", "creation succeeds exactly when the file check reports no error",
				"CheckFiles error: %v; Create error: %v; files %v", cfErr, cerr, pathsOfList(list))
			return c05Done(res, t, mod.m, faultClass)
		}
	default:
		if hardFault && cerr == nil {
			// An I/O fault need not make Create fail (it may retry or not need the failed call); what it may
			// not do is succeed with a wrong archive. Files whose content does not have the size they
			// report are outside what the property promises.
			res.Probes["create-succeeded-despite-fault"]++
			if d["grew"] > 0 || len(shrunk) > 0 {
				return c05Done(res, t, mod.m, faultClass)
			}
			faultNote = fmt.Sprintf(" (Create reported success although these faults were delivered to it: %v)", d)
		}
		if cfErr == nil && !hardFault && cerr != nil && len(shrunk) > 0 {
			// the property promises success only for files whose content has the size they report; a file
			// that shrank after Lstat may be refused (the unchanged code accepts it and archives what it read)
			res.Probes["create-refused-a-shrunk-file"]++
		} else if cfErr == nil && !hardFault && cerr != nil {
			res.Fail("C05", "create-iff-check", "Create failed although the file check passed and no fault was delivered", "Create error: %v (planned faults did not reach it: %v)", cerr, d)
			return c05Done(res, t, mod.m, faultClass)
		}
	}
	if cerr != nil {
		res.Probes["create-failed"]++
		return c05Done(res, t, mod.m, faultClass)
	}
	res.Probes["create-succeeded"]++

	// expected extraction: the files the check reported valid, with the bytes their readers delivered
	expect := map[string]string{}
	byPath := map[string]*simFile{}
	for _, f := range t.files {
		if _, dup := byPath[f.path]; !dup {
			byPath[f.path] = f
		}
	}
	for _, p := range cf.Valid {
		f := byPath[p]
		if f == nil {
			res.Fail("C05", "valid-is-input", "CheckFiles reports a valid path that was not given", "%q", p)
			return c05Done(res, t, mod.m, faultClass)
		}
		if f.virtual {
			expect[p] = strings.Repeat("\x00", int(f.size))
		} else {
			expect[p] = string(f.content)
		}
	}

	archive := w.buf.Bytes()
	entries, content, aerr := archiveEntries(archive)
	if aerr != nil {
		res.Fail("C05", "archive-readable", "Create succeeded but the archive cannot be read", "%v%s", aerr, faultNote)
		return c05Done(res, t, mod.m, faultClass)
	}
	if v := ref.ZipRestrictionViolation(prefix, entries); v != "" {
		res.Fail("C05", "archive-obeys-restrictions", "a produced archive violates a documented restriction", "%s; entries %v", v, entryNames(entries))
		return c05Done(res, t, mod.m, faultClass)
	}
	got := map[string]string{}
	for name, data := range content {
		got[strings.TrimPrefix(name, prefix)] = data
	}
	if describeMap(got) != describeMap(expect) || !sameMap(got, expect) {
		res.Fail("C05", "archive-has-exactly-valid-files", "the archive does not hold exactly the valid files with their bytes", "archive %s; valid files %s%s", describeMap(got), describeMap(expect), faultNote)
		return c05Done(res, t, mod.m, faultClass)
	}

	// through the real checker and extractor
	sb, err := newSandbox()
	if err != nil {
		core.SetHarnessError("c05: " + err.Error())
		return res
	}
	defer sb.close()
	res.Scrub(sb.root)
	zipFile := filepath.Join(sb.root, "m.zip")
	if err := os.WriteFile(zipFile, archive, 0o644); err != nil {
		core.SetHarnessError("c05: " + err.Error())
		return res
	}
	var zcf modzip.CheckedFiles
	var zerr, uerr error
	c05Guard(res, "CheckZip", func() { zcf, zerr = modzip.CheckZip(mod.m, zipFile) })
	if zerr != nil || len(zcf.Invalid) > 0 || zcf.SizeError != nil {
		res.Fail("C05", "checkzip-accepts-created", "an archive produced by Create does not pass the zip check", "CheckZip error %v, invalid %v; entries %v", zerr, zcf.Invalid, entryNames(entries))
		return c05Done(res, t, mod.m, faultClass)
	}
	out := filepath.Join(sb.root, "out")
	c05Guard(res, "Unzip", func() { uerr = modzip.Unzip(out, mod.m, zipFile) })
	if uerr != nil {
		res.Fail("C05", "unzip-accepts-created", "an archive produced by Create does not extract", "Unzip: %v; entries %v", uerr, entryNames(entries))
		return c05Done(res, t, mod.m, faultClass)
	}
	tree, terr := readTree(out)
	if terr != nil {
		core.SetHarnessError("c05: reading extracted tree: " + terr.Error())
		return res
	}
	if !sameMap(tree, expect) {
		res.Fail("C05", "extracts-to-exactly-valid-files", "the extracted tree differs from the files the check reported valid", "extracted %s; valid %s", describeMap(tree), describeMap(expect))
	}
	if len(shrunk) > 0 {
		res.Probes["created-with-a-shrunk-file"]++
	}
	return c05Done(res, t, mod.m, faultClass)
}

func c05Done(res *core.Result, t *zipTree, m module.Version, faultClass bool) *core.Result {
	var names []string
	for _, f := range t.files {
		names = append(names, f.path)
	}
	sort.Strings(names)
	var fk []string
	for k := range res.Faults {
		fk = append(fk, k)
	}
	sort.Strings(fk)
	res.Sig = choice.MixString(strings.Join(names, "|") + m.String() + strings.Join(fk, ","))
	res.Trivial = len(t.files) == 0
	res.Sample = map[string]interface{}{"module": m.String(), "files": names, "fault_class": faultClass, "faults_delivered": res.Faults, "probes": res.Probes}
	return res
}

func sameMap(a, b map[string]string) bool {
	if len(a) != len(b) {
		return false
	}
	for k, v := range a {
		if w, ok := b[k]; !ok || v != w {
			return false
		}
	}
	return true
}

func entryNames(es []ref.ZipEntry) []string {
	var out []string
	for _, e := range es {
		out = append(out, e.Name)
	}
	return out
}

func pathsOfList(list []modzip.File) []string {
	var out []string
	for _, f := range list {
		if f == nil {
			out = append(out, "<nil>")
			continue
		}
		out = append(out, f.Path())
	}
	return out
}

func c05Guard(res *core.Result, what string, f func()) (ok bool) {
	defer func() {
		if e := recover(); e != nil {
			res.Fail("C05", "no-panic", what+" panicked", "%s: %v", what, e)
			ok = false
		}
	}()
	f()
	return true
}

func init() {
	core.Register(&core.Prop{
		ID:      "C05",
		Entries: []core.Entry{{Name: "explore", Run: c05Explore}},
		Explore: []string{"explore"},
		Rule: "explore: seeded source trees of 0-25 files over the adversarial name alphabet of C17 with truthful sizes (fault-free class) or with 1-3 placed faults (writer error/short write at byte k, Open error, reader error after k bytes, file grew or shrank after Lstat, Lstat error), slow chunked readers, 11 module path/version pairs (5 invalid); each successful Create is fed through CheckZip and Unzip into a sandbox and compared byte for byte. " +
			"Distinct = (file names, module, fault kinds delivered); non-trivial = at least one file.",
		Real:        []string{"zip.Create, CheckFiles, CheckZip, Unzip", "archive/zip (standard library)", "module.Check, CheckFilePath"},
		Stub:        []string{"zip.File implementations and their readers", "io.Writer with placed failures", "sandbox directory on the real file system", "reference restriction checker over the archive listing"},
		Assumptions: []string{"a fault that was planned but never reached Create (file omitted, writer limit beyond the archive size) is not counted as delivered", "a file that shrank after Lstat may be archived with the delivered bytes"},
	})
	core.ExpectProbes("C05", "create-succeeded", "create-failed", "created-with-a-shrunk-file")
}
