package props

import (
	"errors"
	"fmt"
	"sort"
	"strings"

	"golang.org/x/mod/sumdb"

	"verif/sim/choice"
	"verif/sim/core"
	"verif/sim/sched"
	"verif/sim/sw"
)

// C01: the client never returns or caches unauthenticated data.
//
// Real: sumdb.Client, parCache, tlog, note, module escaping, sumdb.Server
// (over harness ServerOps). Simulated: network with faults, per-machine
// cache and config with benign behaviours and disk faults, scheduler,
// crash/restart of client processes.

// modAt returns the module stored as record i of a generated universe.
func modAt(base, i int) sw.ModVer {
	if i < 24 {
		return sw.Pool(base + i*7)
	}
	return sw.ModVer{Path: fmt.Sprintf("filler.example/m%d", i), Vers: "v1.0.0"}
}

func buildUniverse(name string, base, n int, flavour uint64) *sw.Universe {
	u := sw.NewUniverse(name)
	for i := 0; u.N() < int64(n); i++ {
		u.Add(modAt(base, i), flavour)
	}
	return u
}

var c01Classes = []string{"net:lookup", "net:tile:L0", "net:tile:L1", "net:tile:L0:full", "net:tile:L2", "net:any", "cache:read:lookup", "cache:read:tile", "cache:write", "config:read", "config:write"}

var c01CacheKinds = []string{"cache-read-error", "cache-bitflip", "cache-truncate", "cache-garbage", "cache-swap"}

func drawFault(src *choice.Src, nclients int) *sw.Fault {
	f := &sw.Fault{Client: src.Intn(nclients+1) - 1, Occ: src.Weighted(5, 3, 2, 1, 1, 1), A: src.Raw(), B: src.Raw()}
	f.Class = c01Classes[src.Weighted(6, 5, 3, 2, 1, 4, 4, 4, 2, 1, 1)]
	switch {
	case strings.HasPrefix(f.Class, "net:"):
		if src.Bool(1, 6) {
			f.Kind = sw.BenignNetKinds[src.Intn(len(sw.BenignNetKinds))]
		} else {
			all := append(append([]string{}, sw.NetFaultKinds...), sw.DiskAssistedNetKinds...)
			f.Kind = all[src.Intn(len(all))]
		}
	case strings.HasPrefix(f.Class, "cache:read"):
		f.Kind = c01CacheKinds[src.Intn(len(c01CacheKinds))]
	case f.Class == "cache:write":
		f.Kind = []string{"cache-write-dropped", "cache-write-torn"}[src.Intn(2)]
	case f.Class == "config:read":
		f.Kind = "config-read-error"
	default:
		f.Kind = "config-write-error"
	}
	return f
}

// A failed configuration write counts as a disk fault for the heal phase: the client keeps the newer
// head in memory, goes on authenticating and caching against it, and the next process starts from the
// older stored head; together with a spliced (stale) answer a cached record can then lie beyond the
// stored head and cannot be validated until the cache entry is dropped. Failing is allowed there;
// returning or storing unauthenticated data never is.
// "stale-splice" (a true record served with a validly signed older head that does not cover it) is the
// other half of that situation: the client authenticates the record against the newer head it holds in
// memory and caches the spliced answer; if that newer head never reaches the configuration (write error,
// or a crash between installing it in memory and writing it) the next process cannot validate the entry.
var diskFaultKinds = map[string]bool{"cache-bitflip": true, "cache-truncate": true, "cache-write-torn": true, "cache-cross": true, "cache-garbage": true, "cache-swap": true, "config-write-error": true, "stale-splice": true, "cache-forged-leaf-tile-planted": true}

// substitutionKinds deliver an AUTHENTIC record that is not the one asked for. The client accepts and
// caches it under the requested name (it authenticates records, not their relation to the request), so
// later lookups of that name on the machine succeed with zero lines. That is outside what C01 states
// (nothing unauthenticated is returned or stored), so such runs relax the exact-lines expectation to
// "exact lines or none"; see DESIGN.md, observations.
var substitutionKinds = map[string]bool{"swap": true, "craft-append": true, "stale": true, "equivocate": true, "cache-swap": true}

func substituted(res *core.Result) bool {
	for k := range res.Faults {
		if substitutionKinds[k] {
			return true
		}
	}
	return false
}

type c01Expect struct {
	lines []string
}

// c01Scenario is shared by the explore and sweep entries.
type c01Scenario struct {
	height    int
	uni       *sw.Universe
	size0     int64
	specs     []clientSpec
	startAt   []int // scheduler step at which client i starts (0 = from the beginning)
	faults    []*sw.Fault
	restarts  [][2]int // (step, client index)
	growAt    [][2]int // (step, new size)
	switchNum int
	switchDen int
	shape     int
}

func runC01(src *choice.Src, sc *c01Scenario, res *core.Result, prop string) *sumRun {
	r := newSumRun(prop, src, res)
	w := r.w
	w.Backend = sw.UniBackend{}
	w.Universes = []*sw.Universe{sc.uni}
	r.s.SwitchNum, r.s.SwitchDen = sc.switchNum, sc.switchDen
	if sc.shape >= 4 {
		r.s.SetShape(sc.shape)
	}
	m := w.NewMachine()
	w.Faults = sc.faults
	w.OnWriteCache = func(c *sw.ClientInfo, file string, data []byte) { w.CheckCacheWrite(prop, c, file, data) }
	w.OnWriteConfig = func(c *sw.ClientInfo, file string, old, new []byte) { w.CheckConfigWrite(prop, c, file, old, new) }
	for i, spec := range sc.specs {
		ci := w.NewClient(m, r.s.NewGroup(), spec.Height, sc.uni, sc.size0)
		r.clients = append(r.clients, ci)
		r.specs = append(r.specs, spec)
		if sc.startAt[i] == 0 {
			r.startClient(spec, ci, "")
		} else if sc.startAt[i] < 0 {
			spec, ci := spec, ci
			r.s.WhenIdle(func() { r.startClient(spec, ci, "") })
		} else {
			i, spec, ci := i, spec, ci
			_ = i
			r.s.At(sc.startAt[i], func() { r.startClient(spec, ci, "") })
		}
	}
	for _, g := range sc.growAt {
		g := g
		r.s.At(g[0], func() {
			for _, c := range w.Clients {
				if int64(g[1]) > c.Size {
					c.Size = int64(g[1])
				}
			}
			res.Logf("log grows to %d records", g[1])
			res.Probes["log-grew-during-run"]++
		})
	}
	gen := 0
	for _, rs := range sc.restarts {
		rs := rs
		r.s.At(rs[0], func() {
			old := r.clients[rs[1]]
			if old.Crashed {
				return
			}
			gen++
			res.Logf("CRASH client %d at step %d; restarting on the surviving cache and config", old.ID, r.s.Steps())
			res.Faults["crash-restart"]++
			r.s.AbortGroup(old.Group)
			old.Crashed = true
			nc := w.NewClient(old.Machine, r.s.NewGroup(), old.Height, old.Uni, old.Size)
			r.clients[rs[1]] = nc
			r.startClient(r.specs[rs[1]], nc, fmt.Sprintf(".r%d", gen))
		})
	}
	return r
}

// c01Judge applies the end-of-run oracles ("honest never fails", no spurious security error).
func c01Judge(r *sumRun, sc *c01Scenario, res *core.Result, prop string) {
	w := r.w
	diskTainted := false
	for k := range res.Faults {
		if diskFaultKinds[k] {
			diskTainted = true
		}
	}
	for _, slotName := range sw.SortedKeys(r.slotOf) {
		for _, o := range r.outcomes[r.slotOf[slotName]] {
			c := w.Clients[o.Client]
			relaxed := o.Tainted || diskTainted
			id, exists := sc.uni.ByKey[o.Req.Path+"@"+strings.TrimSuffix(o.Req.Vers, "/go.mod")]
			exists = exists && id < sc.size0
			if relaxed {
				if o.Err != nil {
					res.Probes["faulted-lookup-failed"]++
				} else {
					res.Probes["faulted-lookup-succeeded"]++
				}
				continue // soundness was checked online; failure is allowed
			}
			if !exists {
				if o.Err == nil && len(o.Lines) == 0 && substituted(res) {
					// an authentic record of another module, cached under this name by a client that was
					// answered dishonestly (see substitutionKinds): zero lines, nothing unauthenticated
					res.Probes["unknown-module-answered-with-zero-lines-after-substitution"]++
				} else if o.Err == nil {
					res.Fail(prop, "unknown-module-fails", "lookup of a module not in the log succeeded", "client %d Lookup(%s) = %q", c.ID, o.Req, o.Lines)
				} else if strings.Contains(o.Err.Error(), sumdb.ErrSecurity.Error()) {
					res.Fail(prop, "honest-no-security-error", "security error without any dishonest response", "client %d Lookup(%s): %s", c.ID, o.Req, firstLine(o.Err.Error()))
				}
				continue
			}
			want := sw.Lines(sc.uni.Records[id], o.Req.Path, o.Req.Vers)
			if o.Err != nil {
				res.Fail(prop, "honest-lookup-succeeds", "lookup failed although every response this client consumed was honest",
					"client %d Lookup(%s) failed: %s; faults fired in the run (none of them on this client before it returned): %v", c.ID, o.Req, firstLine(o.Err.Error()), res.Faults)
			} else if strings.Join(o.Lines, "\n") != strings.Join(want, "\n") && !(len(o.Lines) == 0 && substituted(res)) {
				res.Fail(prop, "exact-lines", "lookup returned lines other than the record's", "client %d Lookup(%s) = %q want %q", c.ID, o.Req, o.Lines, want)
			}
		}
	}
	for _, c := range w.Clients {
		if len(c.Security) > 0 && !c.Tainted && !diskTainted {
			res.Fail(prop, "honest-no-security-error", "security error without any dishonest response", "client %d: %s", c.ID, firstLine(c.Security[0]))
		}
	}
}

// c01Heal restarts one fresh client per machine on the surviving durable
// state against the honest server; with network faults only, every lookup
// must succeed (bounded liveness after faults stop).
func c01Heal(src *choice.Src, r *sumRun, sc *c01Scenario, res *core.Result, prop string) {
	w := r.w
	diskTainted := false
	for k := range res.Faults {
		if diskFaultKinds[k] {
			diskTainted = true
		}
	}
	w.Faults = nil
	for _, c := range w.Clients {
		c.ForgedLeaf, c.ForgedUni = nil, nil
	}
	final := sc.uni.N()
	res.Logf("HEAL: faults stop; fresh client on the surviving cache and config, log at %d", final)
	r.s = sched.New(src)
	w.StepFn = r.s.Steps
	r.s.SwitchNum, r.s.SwitchDen = 0, 1
	var reqs []lookupReq
	seen := map[string]bool{}
	for _, spec := range sc.specs {
		for _, t := range spec.Tasks {
			for _, q := range t {
				if !seen[q.String()] {
					seen[q.String()] = true
					reqs = append(reqs, q)
				}
			}
		}
	}
	// plus the newest record, so that the head moves to the final tree
	last := sc.uni.Mods[final-1]
	if !seen[last.Key()] {
		reqs = append(reqs, lookupReq{last.Path, last.Vers})
	}
	spec := clientSpec{Height: sc.height, Tasks: [][]lookupReq{reqs}}
	ci := w.NewClient(w.Machines[0], r.s.NewGroup(), sc.height, sc.uni, final)
	base := len(r.outcomes)
	r.startClient(spec, ci, ".heal")
	r.s.Run()
	r.s.Close()
	res.Steps += r.s.Steps()
	res.Digest = choice.Mix(res.Digest, r.s.Digest)
	if r.s.Deadlock || r.s.OverBudget {
		res.Fail(prop, "heal-liveness", "lookups do not finish after faults stop", "heal phase: deadlock=%v over-budget=%v %s", r.s.Deadlock, r.s.OverBudget, r.s.BlockedNote)
	}
	for _, p := range r.s.Panics {
		res.Fail(prop, "no-panic", "a lookup goroutine panicked", "%s", firstLines(p, 12))
	}
	for _, o := range r.outcomes[base] {
		id, exists := sc.uni.ByKey[o.Req.Path+"@"+strings.TrimSuffix(o.Req.Vers, "/go.mod")]
		if !exists {
			continue
		}
		if o.Err != nil {
			if diskTainted {
				res.Probes["heal-lookup-failed-after-disk-fault"]++
				continue
			}
			res.Fail(prop, "durable-state-not-poisoned", "after network faults stopped, a fresh client on the surviving cache and config cannot look up a record",
				"heal phase Lookup(%s) failed: %s; faults fired earlier: %v", o.Req, firstLine(o.Err.Error()), res.Faults)
			continue
		}
		want := sw.Lines(sc.uni.Records[id], o.Req.Path, o.Req.Vers)
		if strings.Join(o.Lines, "\n") != strings.Join(want, "\n") && !(len(o.Lines) == 0 && substituted(res)) {
			res.Fail(prop, "exact-lines", "lookup returned lines other than the record's", "heal phase Lookup(%s) = %q want %q", o.Req, o.Lines, want)
		}
	}
	res.Probes["heal-phase-run"]++
}

func c01Finish(src *choice.Src, r *sumRun, sc *c01Scenario, res *core.Result, prop string) {
	honest := len(sc.faults) == 0
	r.finish(honest)
	c01Judge(r, sc, res, prop)
	if res.Violation == nil {
		c01Heal(src, r, sc, res, prop)
	}
	var fk []string
	for k := range res.Faults {
		fk = append(fk, k)
	}
	sort.Strings(fk)
	nOut, nErr := 0, 0
	for _, os := range r.outcomes {
		for _, o := range os {
			nOut++
			if o.Err != nil {
				nErr++
			}
		}
	}
	res.Sig = choice.Mix(res.Digest, choice.MixString(fmt.Sprint(sc.height, sc.uni.N(), fk)))
	res.Trivial = nOut == 0
	res.Sample = map[string]interface{}{"tile_height": sc.height, "log_size": sc.uni.N(), "served_size_at_start": sc.size0, "clients": len(sc.specs),
		"faults_planned": len(sc.faults), "faults_fired": res.Faults, "restarts": len(sc.restarts), "lookups": nOut, "lookups_failed": nErr, "scheduler_steps": res.Steps}
}

func c01Explore(src *choice.Src) *core.Result {
	res := core.NewResult()
	sc := &c01Scenario{}
	sc.height = src.Weighted(3, 3, 2, 1, 1, 1, 1, 2) + 1
	maxN := 70
	if !core.Quick() && src.Bool(1, 4) {
		maxN = 1100
	}
	if src.Bool(1, 2) {
		maxN = 16
	}
	n := src.Range(1, maxN)
	if src.Bool(1, 30) {
		// a log big enough for four-digit tile numbers at a low tile height (tile paths change shape at 1000)
		sc.height = src.Range(1, 2)
		n = 1000<<uint(sc.height) + src.Range(1, 60)
		res.Probes["log-with-tile-number-1000"]++
	}
	sc.uni = buildUniverse("A", src.Intn(sw.PoolSize), n, uint64(src.Intn(3)))
	sc.size0 = int64(src.Range(1, n))
	if src.Bool(1, 2) {
		sc.size0 = int64(n)
	}
	sc.switchNum = 1
	sc.shape = src.Intn(6) // 0-3 random switching, 4-5 priority scheduling (sched.SetShape)
	sc.switchDen = []int{1, 2, 4, 16, 1, 1}[sc.shape]
	nclients := src.Weighted(5, 3, 1) + 1
	for ci := 0; ci < nclients; ci++ {
		spec := clientSpec{Height: sc.height}
		ntasks := src.Weighted(5, 2, 1) + 1
		for t := 0; t < ntasks; t++ {
			var reqs []lookupReq
			for q, nq := 0, src.Range(1, 3); q < nq; q++ {
				var m sw.ModVer
				if src.Bool(1, 12) {
					m = sw.ModVer{Path: "example.com/ghost", Vers: "v9.9.9"}
					if src.Bool(1, 3) {
						// a module the log does not have whose "path version" happens to be the first words of
						// every signed tree head ("go.sum database tree")
						m = sw.ModVer{Path: "go.sum", Vers: "database"}
					}
				} else {
					// bias to the newest and oldest records
					var id int64
					switch src.Weighted(2, 1, 3) {
					case 0:
						id = sc.size0 - 1
					case 1:
						id = 0
					default:
						id = int64(src.Intn(int(sc.size0)))
					}
					m = sc.uni.Mods[id]
				}
				v := m.Vers
				if src.Bool(1, 3) {
					v += "/go.mod"
				}
				reqs = append(reqs, lookupReq{m.Path, v})
			}
			spec.Tasks = append(spec.Tasks, reqs)
		}
		sc.specs = append(sc.specs, spec)
		start := 0
		if ci > 0 && src.Bool(1, 2) {
			start = src.Range(1, 150)
		}
		sc.startAt = append(sc.startAt, start)
	}
	for i, nf := 0, src.Weighted(2, 4, 3, 2); i < nf; i++ {
		sc.faults = append(sc.faults, drawFault(src, nclients))
	}
	for i, nr := 0, src.Weighted(6, 2, 1); i < nr; i++ {
		sc.restarts = append(sc.restarts, [2]int{src.Range(1, 120), src.Intn(nclients)})
	}
	if sc.size0 < int64(n) {
		for i, ng := 0, src.Weighted(1, 2, 1); i < ng; i++ {
			sc.growAt = append(sc.growAt, [2]int{src.Range(1, 150), src.Range(int(sc.size0), n)})
		}
	}
	res.Logf("C01 run: height %d, log %d records (served %d at start), %d clients, %d faults planned, %d restarts", sc.height, n, sc.size0, nclients, len(sc.faults), len(sc.restarts))
	for _, f := range sc.faults {
		res.Logf("  planned: client %d class %s occurrence %d kind %s", f.Client, f.Class, f.Occ, f.Kind)
	}
	r := runC01(src, sc, res, "C01")
	c01Finish(src, r, sc, res, "C01")
	return res
}

// c01SweepRun: one placed fault on the k-th network response of a cold (or
// warm) sequential client. Tape: H-1, N-1, id, warm, kind+1, ordinal, A, B.
func c01SweepRun(src *choice.Src) *core.Result {
	res := core.NewResult()
	sc := &c01Scenario{switchNum: 0, switchDen: 1}
	sc.height = 1 + src.Intn(8)
	n := 1 + src.Intn(1200)
	sc.uni = buildUniverse("A", 3, n, 0)
	sc.size0 = int64(n)
	id := int64(src.Intn(n))
	warm := src.Intn(3) // 0 cold; 1 another client looked up record 0 before; 2 the same record was looked up before by another client
	kind := src.Intn(len(sw.NetFaultKinds) + len(sw.BenignNetKinds) + len(sw.DiskAssistedNetKinds) + 1)
	ord := src.Intn(16)
	a, b := src.Raw(), src.Raw()
	m := sc.uni.Mods[id]
	target := clientSpec{Height: sc.height, Tasks: [][]lookupReq{{{m.Path, m.Vers}, {m.Path, m.Vers + "/go.mod"}}}}
	client := 0
	if warm > 0 {
		wm := sc.uni.Mods[0]
		if warm == 2 {
			wm = m
		}
		sc.specs = append(sc.specs, clientSpec{Height: sc.height, Tasks: [][]lookupReq{{{wm.Path, wm.Vers}}}})
		sc.startAt = append(sc.startAt, 0)
		client = 1
	}
	sc.specs = append(sc.specs, target)
	start := 0
	if warm > 0 {
		start = -1 // when the warming client has finished
	}
	sc.startAt = append(sc.startAt, start)
	if kind > 0 {
		all := append(append(append([]string{}, sw.NetFaultKinds...), sw.BenignNetKinds...), sw.DiskAssistedNetKinds...)
		sc.faults = []*sw.Fault{{Client: client, Class: "net:any", Occ: ord, Kind: all[kind-1], A: a, B: b}}
	}
	res.Logf("C01 sweep: height %d, log %d, record %d, warm %d, fault %v", sc.height, n, id, warm, sc.faults)
	r := runC01(src, sc, res, "C01")
	c01Finish(src, r, sc, res, "C01")
	return res
}

func c01Enumerate(quick bool, seed uint64, shard, nshards int, emit func([]uint64) bool) bool {
	maxH, maxN, maxOrd := 4, 20, 8 // about 400 000 cases: what the thorough tier's 5 min sweep budget enumerates
	warms := []int{0, 1, 2}
	if quick {
		// sized so that the quick tier enumerates it completely in its 10 s sweep budget
		maxH, maxN, maxOrd = 2, 10, 5
		warms = []int{0, 2}
	}
	nk := len(sw.NetFaultKinds) + len(sw.BenignNetKinds) + len(sw.DiskAssistedNetKinds)
	k := 0
	for h := 1; h <= maxH; h++ {
		for n := 1; n <= maxN; n++ {
			ids := []int{0, n - 1}
			if !quick {
				ids = nil
				for i := 0; i < n; i++ {
					ids = append(ids, i)
				}
			}
			prev := -1
			for _, id := range ids {
				if id == prev {
					continue
				}
				prev = id
				for _, warm := range warms {
					k++
					if k%nshards != shard {
						continue
					}
					if !emit([]uint64{uint64(h - 1), uint64(n - 1), uint64(id), uint64(warm), 0}) {
						return false
					}
					for ord := 0; ord < maxOrd; ord++ {
						for kind := 1; kind <= nk; kind++ {
							a := 11 + seed%97 + uint64(ord)*131
							if !emit([]uint64{uint64(h - 1), uint64(n - 1), uint64(id), uint64(warm), uint64(kind), uint64(ord), a, a*7 + 3}) {
								return false
							}
						}
					}
				}
			}
		}
	}
	return true
}

var _ = errors.New

func init() {
	core.Register(&core.Prop{
		ID: "C01",
		Entries: []core.Entry{
			{Name: "explore", Run: c01Explore},
			{Name: "sweep", Run: c01SweepRun},
		},
		Explore: []string{"explore"},
		Sweeps: []core.Sweep{{Name: "single-network-fault-placement", Entry: "sweep", Enumerate: c01Enumerate,
			Space: "tile heights 1..4 (quick 1..2) x log sizes 1..20 (quick 1..10) x looked-up record (quick: first/last) x {cold cache, cache warmed by another record (thorough only), cache warmed by the same record} x {honest, each of the first 8 (quick 5) network responses x each of 24 network fault kinds (20 hostile, 3 benign, 1 assisted by the disk)}"}},
		Rule: "explore: seeded (tile height 1-8, log 1-70 records (thorough up to 1100), log growing during the run, 1-3 clients sharing one machine's cache and config with 1-3 goroutines each, 0-3 faults over network/cache/config classes, 0-2 crash-restarts at arbitrary scheduler steps) followed by a heal phase; sweep: one placed network fault. " +
			"Distinct = digest of the complete seam event log and schedule; non-trivial = at least one lookup completed.",
		Real:        []string{"sumdb.Client incl. parCache and tileReader", "tlog (tiles, hashes, records, tree heads)", "note.Open/NewVerifier", "module.Escape*", "sumdb.Server.ServeHTTP over harness ServerOps"},
		Stub:        []string{"ClientOps: faulty network, per-machine cache (benign misses/drops, torn writes, bit rot), config compare-and-swap register", "log universe + signing (reference implementation)", "goroutine scheduler, crash/restart"},
		Assumptions: []string{"SHA-256 and Ed25519 are secure (a forged record never hashes to a true leaf; only the harness can sign)", "reference implementations in sim/ref are the ground truth for 'authenticated'", "relaxation: a client that consumed a non-benign fault may fail any later lookup (never return wrong lines); disk faults relax every client of the machine"},
	})
	core.ExpectProbes("C01", "heal-phase-run", "faulted-lookup-failed", "faulted-lookup-succeeded", "log-grew-during-run")
}
