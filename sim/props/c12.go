package props

import (
	"archive/zip"
	"bytes"
	"encoding/binary"
	"fmt"
	"hash/crc32"
	"os"
	"path/filepath"
	"sort"
	"strings"

	modzip "golang.org/x/mod/zip"

	"verif/sim/choice"
	"verif/sim/core"
	"verif/sim/ref"
)

// C12: extraction enforces every zip restriction and never writes outside its directory.
//
// Archives come from three sources: real zip.Create output damaged at rest
// (truncation at byte k, bit flips, size fields patched to lie), archives the
// harness builds with arbitrary entry names, directory entries, mode bits and
// declared sizes, and well-formed archives. The target directory is missing,
// empty, non-empty or a file, five levels deep in a sandbox whose every level
// holds sentinel files; everything except the target is snapshotted before and
// after. Not injected: failures of Unzip's own OS calls (no seam exists).

type c12Entry struct {
	name     string
	data     []byte
	declared uint64 // declared uncompressed size
	lie      bool   // declared != len(data)
	dirMode  bool   // directory mode bits in the external attributes
	deflate  bool
}

var c12Names = []string{
	"a.go", "b/c.go", "go.mod", "LICENSE", "sub/go.mod", "GO.MOD", "sub/GO.mod", "pkg/x.go", "Pkg/y.go", "PKG/z.go", "pkg", "pkg/", "dir/", "dir/sub/", "DIR/",
	"../escape.txt", "../../escape2.txt", "/abs.txt", "a/../b.txt", "a/./b.txt", "a//b.txt", "back\\slash.txt", "..\\win.txt", "", "trailing/", "x/../../up.txt",
	"K.go", "k.go", "K.go", "ω/a", "Ω/b", "Ω/c", "é.txt", "É.txt", "con", "aux.txt", "nul.go", "bad*name", "sp ace.txt", "dot.", "...", "日本/語.txt", "\xff.bin", "tab\t.txt",
	"vendor/x/y.go", "a.go", "b/c.go", "deep/er/and/deeper/file.txt", "ǅ", "ǆ",
}

func c12Prefixes(right string) []string {
	up := strings.ToUpper(right[:1]) + right[1:]
	return []string{right, right, right, right, right, right, right, "", up, strings.Replace(right, "@", "_", 1), "other.example/m@v1.0.0/", right[:len(right)-1], "/" + right, "../" + right}
}

func buildZip(entries []c12Entry) ([]byte, error) {
	var buf bytes.Buffer
	zw := zip.NewWriter(&buf)
	for _, e := range entries {
		fh := &zip.FileHeader{Name: e.name, Method: zip.Store}
		if e.deflate {
			fh.Method = zip.Deflate
		}
		if e.dirMode {
			fh.SetMode(os.ModeDir | 0o755)
		} else {
			fh.SetMode(0o644)
		}
		if !e.lie {
			w, err := zw.CreateHeader(fh)
			if err != nil {
				return nil, err
			}
			if _, err := w.Write(e.data); err != nil {
				return nil, err
			}
			continue
		}
		// lying header: raw entry, stored, with a declared size that differs from the data
		fh.Method = zip.Store
		fh.CRC32 = crc32.ChecksumIEEE(e.data)
		fh.CompressedSize64 = uint64(len(e.data))
		fh.UncompressedSize64 = e.declared
		w, err := zw.CreateRaw(fh)
		if err != nil {
			return nil, err
		}
		if _, err := w.Write(e.data); err != nil {
			return nil, err
		}
	}
	if err := zw.Close(); err != nil {
		return nil, err
	}
	return buf.Bytes(), nil
}

type fsSnap map[string]string

func snapshot(root, except string) (fsSnap, error) {
	s := fsSnap{}
	err := filepath.Walk(root, func(p string, info os.FileInfo, err error) error {
		if err != nil {
			return err
		}
		if p == except {
			if info.IsDir() {
				return filepath.SkipDir
			}
			return nil
		}
		rel, _ := filepath.Rel(root, p)
		switch {
		case info.IsDir():
			s[rel] = "dir " + info.Mode().Perm().String()
		case info.Mode().IsRegular():
			b, err := os.ReadFile(p)
			if err != nil {
				return err
			}
			s[rel] = fmt.Sprintf("file %s %d %016x", info.Mode().Perm(), len(b), choice.MixString(string(b)))
		default:
			s[rel] = "other " + info.Mode().String()
		}
		return nil
	})
	return s, err
}

func snapDiff(a, b fsSnap) string {
	var d []string
	for k, v := range a {
		if w, ok := b[k]; !ok {
			d = append(d, "removed "+k)
		} else if v != w {
			d = append(d, "changed "+k)
		}
	}
	for k := range b {
		if _, ok := a[k]; !ok {
			d = append(d, "created "+k)
		}
	}
	sort.Strings(d)
	return strings.Join(d, ", ")
}

func c12Explore(src *choice.Src) *core.Result {
	res := core.NewResult()
	mod := zipModules[src.Weighted(10, 2, 3, 2, 2, 1, 1, 1, 1, 1, 1)]
	right := mod.m.Path + "@" + mod.m.Version + "/"
	source := src.Weighted(5, 3, 2) // 0 harness-built, 1 Create output damaged at rest, 2 Create output intact
	var archive []byte
	var entries []c12Entry
	anyLie := false
	damage := ""
	var intact []byte
	inPlace := false
	switch source {
	case 0:
		n := src.Range(0, 8)
		prefs := c12Prefixes(right)
		adversarial := src.Bool(1, 2)
		for i := 0; i < n; i++ {
			e := c12Entry{deflate: src.Bool(1, 2)}
			name := c12Names[src.Intn(len(c12Names))]
			if !adversarial && src.Bool(7, 8) {
				name = []string{"a.go", "b/c.go", "go.mod", "LICENSE", "pkg/x.go", "docs/readme.txt", "cmd/main.go", "K.go", "ω/a", "é.txt", "dir/", "sp ace.txt"}[src.Intn(12)]
			}
			p := right
			if adversarial || src.Bool(1, 10) {
				p = prefs[src.Intn(len(prefs))]
			}
			e.name = p + name
			e.data = []byte(fmt.Sprintf("data %d %s", i, strings.Repeat("z", src.Intn(120))))
			if strings.HasSuffix(e.name, "/") && src.Bool(3, 4) {
				e.data = nil
			}
			e.declared = uint64(len(e.data))
			switch src.Weighted(14, 1, 1, 1, 1, 1) {
			case 1:
				e.lie, e.declared = true, uint64(len(e.data))+1+uint64(src.Intn(100))
			case 2:
				if len(e.data) > 0 {
					e.lie, e.declared = true, uint64(src.Intn(len(e.data)))
				}
			case 3: // above the per-file or total limits
				e.lie, e.declared = true, []uint64{16<<20 + 1, 500 << 20, 500<<20 + 1, 1 << 40}[src.Intn(4)]
			case 4: // sizes whose signed interpretation is negative or that make the running total wrap
				e.lie, e.declared = true, []uint64{1 << 63, 1<<64 - 1, 1<<63 - 1, 1<<63 + 500<<20}[src.Intn(4)]
			case 5:
				e.dirMode = true
			}
			anyLie = anyLie || e.lie
			entries = append(entries, e)
		}
		b, err := buildZip(entries)
		if err != nil {
			res.Probes["harness-zip-not-buildable"]++
			res.Trivial = true
			res.Sig = 1
			return res
		}
		archive = b
	default:
		t := genZipTreeStyle(src, 10, 0)
		var buf bytes.Buffer
		if err := modzip.Create(&buf, mod.m, t.list()); err != nil {
			// build a simple valid archive instead
			t = &zipTree{stats: &zipIOStats{}}
			for i, p := range []string{"go.mod", "a.go", "pkg/b.go"} {
				c := []byte(fmt.Sprintf("file %d\n", i))
				t.files = append(t.files, &simFile{path: p, mode: 0o644, content: c, size: int64(len(c)), readErr: -1, stats: t.stats})
			}
			buf.Reset()
			if err := modzip.Create(&buf, mod.m, t.list()); err != nil {
				if mod.valid {
					core.SetHarnessError("c12: cannot create a baseline archive: " + err.Error())
				}
				res.Trivial = true
				res.Sig = 2
				return res
			}
		}
		archive = append([]byte(nil), buf.Bytes()...)
		intact = append([]byte(nil), archive...)
		if source == 1 && len(archive) > 0 {
			switch src.Weighted(3, 3, 3, 2) {
			case 3:
				damage = c12PatchName(src, archive)
			case 0:
				archive = archive[:src.Intn(len(archive))]
				damage = "truncated"
			case 1:
				for i, n := 0, 1+src.Intn(3); i < n; i++ {
					pos := src.Intn(len(archive) * 8)
					archive[pos/8] ^= 1 << uint(pos%8)
				}
				damage = "bit flips"
			default:
				damage = c12PatchSizes(src, archive)
			}
			res.Faults["at-rest:"+damage]++
			// the file may change in place after it has been checked and extracted once: same name, same
			// size, same modification time
			inPlace = len(archive) == len(intact) && !bytes.Equal(archive, intact) && src.Bool(1, 2)
		}
	}

	// ---- sandbox: five levels, sentinels at every level ----
	sb, err := newSandbox()
	if err != nil {
		core.SetHarnessError("c12: " + err.Error())
		return res
	}
	defer sb.close()
	res.Scrub(sb.root)
	level := sb.root
	for i := 1; i <= 4; i++ {
		level = filepath.Join(level, fmt.Sprintf("l%d", i))
		os.MkdirAll(level, 0o755)
		os.WriteFile(filepath.Join(level, "sentinel.txt"), []byte(fmt.Sprintf("sentinel %d", i)), 0o644)
	}
	os.WriteFile(filepath.Join(sb.root, "sentinel.txt"), []byte("sentinel 0"), 0o644)
	zipFile := filepath.Join(sb.root, "archive.zip")
	os.WriteFile(zipFile, archive, 0o644)
	target := filepath.Join(level, "target")
	targetState := []string{"missing", "empty", "non-empty", "file", "parent-missing", "non-empty-unlistable", "non-empty-via-dotdot"}[src.Weighted(6, 3, 2, 1, 1, 2, 2)]
	switch targetState {
	case "non-empty-via-dotdot":
		// The target is named through "x/..": <level>/<x>/../target, where <level>/target exists and is not
		// empty and x does not exist (or is a link to a directory elsewhere). The operating system and a
		// lexical cleaning of the path disagree about which directory that is.
		real := filepath.Join(level, "target")
		os.Mkdir(real, 0o755)
		os.WriteFile(filepath.Join(real, "already-here.txt"), []byte("x"), 0o644)
		if src.Bool(1, 2) {
			elsewhere := filepath.Join(level, "elsewhere")
			os.MkdirAll(filepath.Join(elsewhere, "sub"), 0o755)
			os.Symlink(filepath.Join(elsewhere, "sub"), filepath.Join(level, "x"))
		}
		target = level + string(filepath.Separator) + "x" + string(filepath.Separator) + ".." + string(filepath.Separator) + "target"
		res.Faults["target-named-through-dotdot"]++
	case "non-empty-unlistable":
		// The target exists and is not empty, but listing it fails (a directory without read permission;
		// the simulator answers Unzip's listing itself because the checks run as root, whom permission
		// bits do not stop). One of the things in it is a link to a directory outside the target, named
		// like the first path element of an archive entry.
		os.Mkdir(target, 0o755)
		os.WriteFile(filepath.Join(target, "already-here.txt"), []byte("x"), 0o644)
		outside := filepath.Join(level, "outside-the-target")
		os.Mkdir(outside, 0o755)
		link := "sub"
		if zr, err := zip.NewReader(bytes.NewReader(archive), int64(len(archive))); err == nil {
			var cands []string
			for _, f := range zr.File {
				rel := strings.TrimPrefix(f.Name, right)
				if i := strings.Index(rel, "/"); i > 0 && rel != f.Name && !strings.ContainsAny(rel[:i], "\\\x00") {
					cands = append(cands, rel[:i])
				}
			}
			if len(cands) > 0 {
				link = cands[src.Intn(len(cands))]
			}
		}
		os.Symlink(outside, filepath.Join(target, link))
		unlistable := target
		modzip.SimListing = func(dir string, files []os.DirEntry, err error) ([]os.DirEntry, error) {
			if dir == unlistable {
				return nil, &os.PathError{Op: "open", Path: dir, Err: os.ErrPermission}
			}
			return files, err
		}
		defer func() { modzip.SimListing = nil }()
		res.Faults["target-cannot-be-listed"]++
	case "empty":
		os.Mkdir(target, 0o755)
	case "non-empty":
		os.Mkdir(target, 0o755)
		os.WriteFile(filepath.Join(target, "already-here.txt"), []byte("x"), 0o644)
	case "file":
		os.WriteFile(target, []byte("i am a file"), 0o644)
	case "parent-missing":
		target = filepath.Join(level, "not", "yet", "target")
	}
	except := target
	if targetState == "parent-missing" {
		except = filepath.Join(level, "not")
	}
	if targetState == "non-empty-via-dotdot" {
		except = filepath.Join(level, "no-such-entry") // nothing may change at all: every reading of the path leads to a non-empty or missing place
	}
	if inPlace {
		os.WriteFile(zipFile, intact, 0o644)
		if st, err := os.Stat(zipFile); err == nil {
			pre := filepath.Join(sb.root, "earlier-extraction")
			func() {
				defer func() { recover() }()
				modzip.CheckZip(mod.m, zipFile)
				modzip.Unzip(pre, mod.m, zipFile)
			}()
			os.RemoveAll(pre)
			os.WriteFile(zipFile, archive, 0o644) // same file, same length
			os.Chtimes(zipFile, st.ModTime(), st.ModTime())
			res.Faults["at-rest:changed in place after an earlier check and extraction"]++
			res.Logf("the intact archive was checked and extracted once; then the file changed in place (%s), size and modification time as before", damage)
		}
	}
	before, err := snapshot(sb.root, except)
	if err != nil {
		core.SetHarnessError("c12: snapshot: " + err.Error())
		return res
	}
	res.Logf("C12 run: module %s (valid=%v), source %d %s, %d bytes, target %s", mod.m, mod.valid, source, damage, len(archive), targetState)

	var zcf modzip.CheckedFiles
	var zerr, uerr error
	func() {
		defer func() {
			if e := recover(); e != nil {
				res.Fail("C12", "no-panic", "CheckZip panicked", "%v", e)
			}
		}()
		zcf, zerr = modzip.CheckZip(mod.m, zipFile)
	}()
	func() {
		defer func() {
			if e := recover(); e != nil {
				res.Fail("C12", "no-panic", "Unzip panicked", "%v", e)
				uerr = fmt.Errorf("panic")
			}
		}()
		uerr = modzip.Unzip(target, mod.m, zipFile)
	}()
	res.Steps = 2
	after, err := snapshot(sb.root, except)
	if err != nil {
		core.SetHarnessError("c12: snapshot: " + err.Error())
		return res
	}
	if d := snapDiff(before, after); d != "" {
		res.Fail("C12", "nothing-outside-target", "extraction created or changed something outside the target directory",
			"Unzip error=%v; outside the target: %s; entries %v", uerr, d, c12EntryNames(archive, entries))
		return c12Done(res, mod.m.String(), source, targetState, entries, archive)
	}
	checkOK := zerr == nil
	_ = zcf
	// reference verdict on the listing as archive/zip sees it
	listing, content, lerr := archiveEntries(archive)
	parsed := lerr == nil || listing != nil
	if zr, err := zip.NewReader(bytes.NewReader(archive), int64(len(archive))); err != nil {
		parsed = false
	} else {
		listing = listing[:0]
		for _, f := range zr.File {
			listing = append(listing, ref.ZipEntry{Name: f.Name, Size: f.UncompressedSize64, IsDir: strings.HasSuffix(f.Name, "/")})
		}
	}
	dataMatches := lerr == nil // every entry could be read back in full with the declared size and checksum
	if parsed {
		viol := ref.ZipRestrictionViolation(right, listing)
		wantOK := mod.valid && viol == ""
		// "sizes match their declarations" is one of the restrictions: an archive whose data contradict the
		// declarations may be refused by the zip check although its listing alone is acceptable (if it is
		// accepted, that is judged below against what extraction does)
		if !checkOK && wantOK {
			// The property demands that what violates a restriction is refused (and that extraction follows
			// the zip check); it does not say that the zip check accepts everything else. Archives that
			// Create produces must be accepted: that is C05's business.
			res.Probes["zip-check-refused-an-archive-the-listed-restrictions-allow"]++
		}
		if checkOK && !wantOK {
			res.Fail("C12", "checkzip-iff-restrictions", "the zip check accepts an archive that violates a documented restriction",
				"CheckZip error=%v; by the documented rules the archive is acceptable=%v (%s; module valid=%v); entries %v", zerr, wantOK, viol, mod.valid, listingDesc(listing))
			return c12Done(res, mod.m.String(), source, targetState, entries, archive)
		}
	} else if checkOK {
		res.Fail("C12", "checkzip-iff-restrictions", "the zip check accepted something that is not a zip archive", "%d bytes", len(archive))
		return c12Done(res, mod.m.String(), source, targetState, entries, archive)
	}
	switch targetState {
	case "non-empty", "file", "non-empty-unlistable", "non-empty-via-dotdot":
		if uerr == nil {
			res.Fail("C12", "target-must-be-empty", "extraction into a non-empty target or a file succeeded", "target state %s", targetState)
		}
		res.Probes["refused-target-"+targetState]++
		return c12Done(res, mod.m.String(), source, targetState, entries, archive)
	}
	if dataMatches {
		if (uerr == nil) != checkOK {
			res.Fail("C12", "unzip-iff-checkzip", "extraction does not succeed exactly when the zip check accepts",
				"CheckZip error=%v; Unzip error=%v; entries %v", zerr, uerr, listingDesc(listing))
			return c12Done(res, mod.m.String(), source, targetState, entries, archive)
		}
	} else if uerr == nil {
		res.Fail("C12", "lying-sizes-rejected", "extraction succeeded although an entry's content does not match its declaration", "reading the archive back fails with %v; Unzip succeeded; entries %v", lerr, listingDesc(listing))
		return c12Done(res, mod.m.String(), source, targetState, entries, archive)
	} else if checkOK {
		// the property's "exactly when" covers every archive, "declared sizes that disagree with content"
		// included. Judged last in the run: nothing else is evaluated after a refused extraction.
		res.Probes["zip-check-accepted-what-extraction-refused(data contradict declaration)"]++
		res.Fail("C12", "unzip-iff-checkzip-data", "the zip check accepts an archive that extraction refuses because an entry's data contradict its declared size or checksum",
			"CheckZip error=%v; Unzip error=%v; reading the archive back: %v; entries %v", zerr, uerr, lerr, listingDesc(listing))
		return c12Done(res, mod.m.String(), source, targetState, entries, archive)
	}
	if uerr == nil {
		res.Probes["unzip-succeeded"]++
		tree, terr := readTree(target)
		if terr != nil {
			core.SetHarnessError("c12: reading extracted tree: " + terr.Error())
			return res
		}
		want := map[string]string{}
		for name, data := range content {
			rel := strings.TrimPrefix(name, right)
			if rel == "" || strings.HasSuffix(rel, "/") {
				continue
			}
			want[rel] = data
		}
		if !sameMap(tree, want) {
			res.Fail("C12", "extracted-equals-entries", "the extracted tree differs from the archive's entries", "extracted %s; entries %s", describeMap(tree), describeMap(want))
		}
	} else {
		res.Probes["unzip-failed"]++
		res.Logf("Unzip: %v", uerr)
	}
	return c12Done(res, mod.m.String(), source, targetState, entries, archive)
}

// c12PatchSizes rewrites an uncompressed-size field in a local header or the central directory.
// c12PatchName replaces one byte of one entry name wherever that name occurs (local header and central
// directory), keeping every length: the listing changes, the data and their checksums do not.
func c12PatchName(src *choice.Src, b []byte) string {
	zr, err := zip.NewReader(bytes.NewReader(b), int64(len(b)))
	if err != nil || len(zr.File) == 0 {
		return "name-patch (not applicable)"
	}
	name := zr.File[src.Intn(len(zr.File))].Name
	if len(name) == 0 {
		return "name-patch (not applicable)"
	}
	pos := src.Intn(len(name))
	repl := []byte{'\\', 'X', '.', '/', ':', 'n', 0x7f}[src.Intn(7)]
	if name[pos] == repl {
		repl = 'Q'
	}
	n := 0
	for i := 0; i+len(name) <= len(b); i++ {
		if string(b[i:i+len(name)]) == name {
			b[i+pos] = repl
			n++
			i += len(name) - 1
		}
	}
	if n == 0 {
		return "name-patch (not applicable)"
	}
	return "entry name patched"
}

func c12PatchSizes(src *choice.Src, b []byte) string {
	var locs []int
	for i := 0; i+30 < len(b); i++ {
		if b[i] == 'P' && b[i+1] == 'K' && (b[i+2] == 1 && b[i+3] == 2) {
			locs = append(locs, i+24) // central directory: uncompressed size at +24
		}
	}
	if len(locs) == 0 {
		return "size-patch (no header found)"
	}
	at := locs[src.Intn(len(locs))]
	v := []uint32{0, 1, 1 << 20, 17 << 20, 0x7fffffff, 0xfffffffe}[src.Intn(6)]
	if src.Bool(1, 2) {
		v = binary.LittleEndian.Uint32(b[at:]) + 1 + uint32(src.Intn(5))
	}
	binary.LittleEndian.PutUint32(b[at:], v)
	return "central directory size patched"
}

func listingDesc(l []ref.ZipEntry) []string {
	var out []string
	for _, e := range l {
		out = append(out, fmt.Sprintf("%q(%d)", e.Name, e.Size))
	}
	return out
}

func c12EntryNames(archive []byte, entries []c12Entry) []string {
	var out []string
	if zr, err := zip.NewReader(bytes.NewReader(archive), int64(len(archive))); err == nil {
		for _, f := range zr.File {
			out = append(out, fmt.Sprintf("%q mode=%v", f.Name, f.Mode()))
		}
		return out
	}
	for _, e := range entries {
		out = append(out, e.name)
	}
	return out
}

func c12Done(res *core.Result, mod string, source int, target string, entries []c12Entry, archive []byte) *core.Result {
	names := c12EntryNames(archive, entries)
	res.Sig = choice.MixString(fmt.Sprint(mod, source, target, names, res.Faults, len(archive)))
	res.Trivial = len(archive) == 0
	res.Sample = map[string]interface{}{"module": mod, "source": []string{"harness-built", "Create output damaged at rest", "Create output"}[source], "target": target, "entries": names, "faults": res.Faults, "probes": res.Probes}
	return res
}

func init() {
	core.Register(&core.Prop{
		ID:      "C12",
		Entries: []core.Entry{{Name: "explore", Run: c12Explore}},
		Explore: []string{"explore"},
		Rule: "explore: seeded archives (harness-built with 0-8 entries over 50 hostile names x 14 prefixes, directory entries, directory mode bits, declared sizes that lie or exceed limits incl. >= 2^63; real Create output truncated, bit-flipped or with patched size fields; intact Create output), 11 module/version pairs, target missing/empty/non-empty/a file/parent missing, five-level sandbox with sentinels snapshotted before and after. " +
			"Distinct = (module, source, target state, entry names and modes, damage); non-trivial = non-empty archive.",
		Real:        []string{"zip.Unzip, CheckZip (checkZip, collisionChecker)", "zip.Create (as archive source)", "archive/zip reader"},
		Stub:        []string{"archive builder with raw headers", "at-rest corruption", "sandbox directory tree with sentinels on the real file system", "reference restriction checker"},
		Assumptions: []string{"failures of Unzip's own OS calls (MkdirAll, OpenFile, Close) are not injected: there is no seam and an add-only hook cannot provide one", "an entry is a directory entry iff its name ends in a slash"},
	})
	core.ExpectProbes("C12", "unzip-succeeded", "unzip-failed", "refused-target-non-empty", "refused-target-file")
}
