package props

import (
	"fmt"
	"time"

	"golang.org/x/mod/sumdb/tlog"

	"verif/sim/choice"
	"verif/sim/core"
	"verif/sim/ref"
)

// C03: Merkle inclusion and consistency proofs are complete and sound.
//
// An auditor actor obtains proofs from the real tlog.ProveRecord/ProveTree
// reading through a HashReader seam (the log's store, possibly failing, or a
// TileHashReader over the faulty tile transport of C10), ships the tuple
// (proof, sizes, index, leaf, roots) over a corrupting channel and verifies
// it with the real tlog.CheckRecord/CheckTree. The reference prover and the
// RFC 9162 verification algorithms are the oracles.

type c03Store struct {
	tree    *ref.Tree
	fault   int // 0 none, 1 error, 2 short result, 3 long result
	calls   int
	faultAt int
	fired   bool
	// mat, if set, is the materialised store; for a run of consecutive indexes the reader hands out a
	// sub-slice of it instead of a copy (legal for a HashReader: a caller must not write into what it
	// is given). Shared by the stores of one run, so damage done by one call shows in the next.
	mat []tlog.Hash
}

func (s *c03Store) ReadHashes(idx []int64) ([]tlog.Hash, error) {
	s.calls++
	if s.mat != nil && len(idx) > 0 && !(s.fault != 0 && s.calls-1 == s.faultAt) {
		consecutive := idx[0] >= 0 && idx[len(idx)-1] < int64(len(s.mat))
		for i := 1; i < len(idx); i++ {
			consecutive = consecutive && idx[i] == idx[i-1]+1
		}
		if consecutive {
			a, b := idx[0], idx[len(idx)-1]+1
			return s.mat[a:b:b], nil
		}
	}
	out := make([]tlog.Hash, len(idx))
	for i, x := range idx {
		if x < 0 || x >= ref.StoredCount(s.tree.N()) {
			return nil, fmt.Errorf("index %d out of range", x)
		}
		if s.mat != nil {
			out[i] = s.mat[x]
		} else {
			out[i] = tlog.Hash(s.tree.StoredHash(x))
		}
	}
	if s.fault != 0 && s.calls-1 == s.faultAt {
		s.fired = true
		switch s.fault {
		case 1:
			return nil, fmt.Errorf("simulated read error")
		case 2:
			if len(out) > 0 {
				return out[:len(out)-1], nil
			}
			return out, nil // nothing to shorten: no fault delivered
		case 3:
			return append(out, tlog.Hash{}), nil
		case 4: // an error together with a result of the right length that is only partly filled in
			if len(out) > 0 {
				for i := len(out) / 2; i < len(out); i++ {
					out[i] = tlog.Hash{}
				}
				return out, fmt.Errorf("simulated read error after %d of %d hashes", len(out)/2, len(out))
			}
			s.fired = false
		}
	}
	return out, nil
}

func toRef(p []tlog.Hash) []ref.Hash {
	out := make([]ref.Hash, len(p))
	for i := range p {
		out[i] = ref.Hash(p[i])
	}
	return out
}

func eqHashes(a []tlog.Hash, b []ref.Hash) bool {
	if len(a) != len(b) {
		return false
	}
	for i := range a {
		if ref.Hash(a[i]) != b[i] {
			return false
		}
	}
	return true
}

func c03Tree(src *choice.Src) (*ref.Tree, bool) {
	// small real trees mostly; sometimes a huge virtual tree for index arithmetic
	if src.Bool(1, 6) {
		n := int64(1) << uint(src.Range(8, 40))
		n += int64(src.Uint64n(uint64(n))) - n/2
		if src.Bool(1, 3) {
			n = int64(1)<<uint(src.Range(8, 40)) + int64(src.Intn(3)) - 1
		}
		return ref.NewUniformTree(n, ref.LeafHash([]byte("uniform"))), true
	}
	max := 300
	if src.Bool(1, 2) {
		max = 40
	}
	n := src.Range(1, max)
	t := ref.NewTree()
	seed := src.Uint64n(1 << 20)
	for i := 0; i < n; i++ {
		t.Append([]byte(fmt.Sprintf("record %d/%d\n", i, seed)))
	}
	return t, false
}

type c03Tuple struct {
	proof []tlog.Hash
	t, n  int64
	th, h tlog.Hash // CheckRecord: tree hash, leaf hash. CheckTree: new root, old root.
}

var c03Mutations = []string{"none", "flip-hash", "drop-hash", "dup-hash", "swap-hashes", "append-hash", "foreign-hash", "truncate-proof", "index+1", "index-1", "index=0", "index-negative", "index-beyond", "size+1", "size-1", "size=0", "size-negative", "size-huge", "leaf-replaced", "root-replaced", "swap-sizes", "empty-proof", "proof-of-other"}

func c03Mutate(src *choice.Src, tr *ref.Tree, in c03Tuple, kind string, other []tlog.Hash) c03Tuple {
	out := in
	out.proof = append([]tlog.Hash(nil), in.proof...)
	pos := func() int {
		if len(out.proof) == 0 {
			return -1
		}
		return src.Intn(len(out.proof))
	}
	switch kind {
	case "flip-hash":
		if i := pos(); i >= 0 {
			out.proof[i][src.Intn(32)] ^= 1 << uint(src.Intn(8))
		}
	case "drop-hash":
		if i := pos(); i >= 0 {
			out.proof = append(out.proof[:i], out.proof[i+1:]...)
		}
	case "dup-hash":
		if i := pos(); i >= 0 {
			out.proof = append(out.proof[:i+1], out.proof[i:]...)
		}
	case "swap-hashes":
		if len(out.proof) >= 2 {
			i, j := src.Intn(len(out.proof)), src.Intn(len(out.proof))
			out.proof[i], out.proof[j] = out.proof[j], out.proof[i]
		}
	case "append-hash":
		h := tlog.Hash{}
		if src.Bool(1, 2) && len(out.proof) > 0 {
			h = out.proof[len(out.proof)-1]
		}
		if src.Bool(1, 2) {
			out.proof = append(out.proof, h)
		} else {
			out.proof = append([]tlog.Hash{h}, out.proof...)
		}
	case "foreign-hash":
		if i := pos(); i >= 0 {
			l := src.Intn(4)
			if cnt := tr.N() >> uint(l); cnt > 0 {
				out.proof[i] = tlog.Hash(tr.Sub(l, int64(src.Uint64n(uint64(cnt)))))
			}
		}
	case "truncate-proof":
		if len(out.proof) > 0 {
			out.proof = out.proof[:src.Intn(len(out.proof))]
		}
	case "empty-proof":
		out.proof = nil
	case "proof-of-other":
		out.proof = append([]tlog.Hash(nil), other...)
	case "index+1":
		out.n++
	case "index-1":
		out.n--
	case "index=0":
		out.n = 0
	case "index-negative":
		out.n = -1 - int64(src.Uint64n(1<<40))
		if src.Bool(1, 4) {
			out.n = -1 << 63
		}
	case "index-beyond":
		out.n = out.t + int64(src.Uint64n(1<<20))
	case "size+1":
		out.t++
	case "size-1":
		out.t--
	case "size=0":
		out.t = 0
	case "size-negative":
		out.t = -1 - int64(src.Uint64n(1<<40))
		if src.Bool(1, 4) {
			out.t = -1 << 63
		}
	case "size-huge":
		out.t = 1<<62 + int64(src.Uint64n(1<<20))
	case "leaf-replaced":
		out.h = tlog.Hash(tr.Sub(0, int64(src.Uint64n(uint64(tr.N())))))
		if src.Bool(1, 3) {
			out.h[0] ^= 1
		}
	case "root-replaced":
		out.th = tlog.Hash(tr.MTH(1 + int64(src.Uint64n(uint64(tr.N())))))
		if src.Bool(1, 3) {
			out.th[31] ^= 0x80
		}
	case "swap-sizes":
		out.t, out.n = out.n, out.t
	}
	return out
}

func c03Explore(src *choice.Src) *core.Result {
	res := core.NewResult()
	tr, virtual := c03Tree(src)
	N := tr.N()
	if virtual {
		res.Probes["virtual-tree-above-2^8"]++
		if N >= 1<<32 {
			res.Probes["virtual-tree-above-2^32"]++
		}
	}
	// ---- inclusion ----
	t := 1 + int64(src.Uint64n(uint64(N)))
	if src.Bool(1, 3) {
		t = N
	}
	n := int64(src.Uint64n(uint64(t)))
	switch src.Weighted(6, 1, 1) {
	case 1:
		n = t - 1
	case 2:
		n = 0
	}
	var mat []tlog.Hash
	if !virtual && N <= 2048 && src.Bool(1, 3) {
		mat = make([]tlog.Hash, ref.StoredCount(N))
		for i := range mat {
			mat[i] = tlog.Hash(tr.StoredHash(int64(i)))
		}
		res.Probes["zero-copy-store"]++
	}
	st := &c03Store{tree: tr, fault: src.Weighted(6, 1, 1, 1, 1), faultAt: src.Intn(2), mat: mat}
	res.Logf("C03 tree %d (virtual=%v): inclusion of %d in %d, store fault %d", N, virtual, n, t, st.fault)
	var rp tlog.RecordProof
	var err error
	ok := c03Guard(res, "ProveRecord", func() { rp, err = tlog.ProveRecord(t, n, st) })
	want := tr.Path(n, t)
	if ok {
		switch {
		case st.fired && err == nil && !eqHashes(rp, want):
			// a failed read may be retried or worked around; what may not happen is a wrong proof
			res.Fail("C03", "hashreader-fault-surfaces", "ProveRecord returned a wrong proof after its HashReader failed or returned the wrong number of hashes", "ProveRecord(%d, %d): store fault %d was delivered, no error, and the result is not the audit path%s", t, n, st.fault, firstDiff(rp, want))
		case st.fired && err == nil:
			res.Probes["prove-correct-despite-reader-fault"]++
		case !st.fired && err != nil:
			res.Fail("C03", "prove-complete", "ProveRecord failed on an honest store", "ProveRecord(%d, %d): %v", t, n, err)
		case err == nil && !eqHashes(rp, want):
			res.Fail("C03", "prove-is-rfc6962-path", "ProveRecord result is not the RFC 6962 audit path", "ProveRecord(%d, %d) returned %d hashes; the audit path PATH(%d, D[%d]) has %d%s", t, n, len(rp), n, t, len(want), firstDiff(rp, want))
		}
		if st.fired {
			res.Faults[[]string{"", "hashreader-error", "hashreader-short", "hashreader-long", "hashreader-error-with-partial-result"}[st.fault]]++
		}
	}
	leaf := tlog.Hash(tr.Sub(0, n))
	root := tlog.Hash(tr.MTH(t))
	honest := c03Tuple{proof: toTlog(want), t: t, n: n, th: root, h: leaf}
	// another valid proof to borrow hashes from
	on := int64(src.Uint64n(uint64(t)))
	other := toTlog(tr.Path(on, t))
	nm := src.Range(1, 4)
	for i := 0; i < nm; i++ {
		kind := c03Mutations[src.Intn(len(c03Mutations))]
		if i == 0 {
			kind = "none"
		}
		m := c03Mutate(src, tr, honest, kind, other)
		var cerr error
		if !c03Guard(res, "CheckRecord/"+kind, func() { cerr = tlog.CheckRecord(tlog.RecordProof(m.proof), m.t, m.th, m.n, m.h) }) {
			continue
		}
		refOK := ref.VerifyInclusion(toRef(m.proof), m.t, m.n, ref.Hash(m.h), ref.Hash(m.th))
		res.Faults["transit:"+kind]++
		if (cerr == nil) != refOK {
			res.Fail("C03", "checkrecord-iff-rfc9162", "CheckRecord disagrees with the RFC 9162 inclusion verification",
				"after mutation %q: CheckRecord(proof of %d hashes, t=%d, n=%d) = %v but the RFC 9162 algorithm says accept=%v (original: t=%d n=%d, %d hashes)", kind, len(m.proof), m.t, m.n, cerr, refOK, t, n, len(want))
		}
		if refOK && kind != "none" {
			res.Probes["mutation-left-tuple-valid"]++
		}
	}

	// ---- consistency ----
	t2 := 1 + int64(src.Uint64n(uint64(N)))
	if src.Bool(1, 3) {
		t2 = N
	}
	n2 := 1 + int64(src.Uint64n(uint64(t2)))
	switch src.Weighted(6, 1, 1, 1) {
	case 1:
		n2 = t2
	case 2:
		n2 = 1
	case 3: // power of two
		n2 = int64(1) << uint(src.Intn(41))
		if n2 > t2 {
			n2 = t2
		}
	}
	st2 := &c03Store{tree: tr, fault: src.Weighted(6, 1, 1, 1, 1), faultAt: 0, mat: mat}
	res.Logf("consistency of %d in %d, store fault %d", n2, t2, st2.fault)
	var tp tlog.TreeProof
	ok = c03Guard(res, "ProveTree", func() { tp, err = tlog.ProveTree(t2, n2, st2) })
	want2 := tr.Proof(n2, t2)
	if ok {
		switch {
		case st2.fired && err == nil && !eqHashes(tp, want2):
			res.Fail("C03", "hashreader-fault-surfaces", "ProveTree returned a wrong proof after its HashReader failed or returned the wrong number of hashes", "ProveTree(%d, %d): store fault %d was delivered, no error, and the result is not the consistency proof%s", t2, n2, st2.fault, firstDiff(tp, want2))
		case st2.fired && err == nil:
			res.Probes["prove-correct-despite-reader-fault"]++
		case !st2.fired && err != nil:
			res.Fail("C03", "prove-complete", "ProveTree failed on an honest store", "ProveTree(%d, %d): %v", t2, n2, err)
		case err == nil && !eqHashes(tp, want2):
			res.Fail("C03", "prove-is-rfc6962-proof", "ProveTree result is not the RFC 6962 consistency proof", "ProveTree(%d, %d) returned %d hashes; PROOF(%d, D[%d]) has %d%s", t2, n2, len(tp), n2, t2, len(want2), firstDiff(tp, want2))
		}
		if st2.fired {
			res.Faults[[]string{"", "hashreader-error", "hashreader-short", "hashreader-long", "hashreader-error-with-partial-result"}[st2.fault]]++
		}
	}
	// an auditor holds a proof while it obtains the next one: a proof handed out stays what it was
	if ok && err == nil && eqHashes(tp, want2) && res.Violation == nil && src.Bool(1, 2) {
		n3 := int64(1) << uint(src.Intn(41))
		for n3 > t2 {
			n3 >>= 1
		}
		var tp3 tlog.TreeProof
		var err3 error
		if c03Guard(res, "ProveTree", func() { tp3, err3 = tlog.ProveTree(t2, n3, &c03Store{tree: tr, mat: mat}) }) {
			want3 := tr.Proof(n3, t2)
			switch {
			case err3 != nil:
				res.Fail("C03", "prove-complete", "ProveTree failed on an honest store", "ProveTree(%d, %d) after ProveTree(%d, %d): %v", t2, n3, t2, n2, err3)
			case !eqHashes(tp3, want3):
				res.Fail("C03", "prove-is-rfc6962-proof", "ProveTree result is not the RFC 6962 consistency proof", "ProveTree(%d, %d) after ProveTree(%d, %d)%s", t2, n3, t2, n2, firstDiff(tp3, want3))
			case !eqHashes(tp, want2):
				res.Fail("C03", "proof-stays-valid", "a consistency proof handed out earlier changed when the next proof was produced", "ProveTree(%d, %d) returned the RFC 6962 proof; after ProveTree(%d, %d) the same slice%s", t2, n2, t2, n3, firstDiff(tp, want2))
			}
			res.Probes["earlier-proof-rechecked"]++
		}
	}
	// reading must not change the store: a later TreeHash and every stored hash are still the reference's
	if mat != nil && res.Violation == nil {
		for i := range mat {
			if ref.Hash(mat[i]) != tr.StoredHash(int64(i)) {
				l, o := ref.StoredCoord(int64(i))
				res.Fail("C03", "store-untouched", "proving wrote into the hashes its HashReader handed out", "tree %d: after ProveRecord(%d, %d) and ProveTree(%d, %d) the store's hash at position %d (level %d offset %d) is no longer the RFC 6962 subtree hash; the reader hands out sub-slices of its own array", N, t, n, t2, n2, i, l, o)
				break
			}
		}
		if th, err := tlog.TreeHash(N, &c03Store{tree: tr, mat: mat}); res.Violation == nil && (err != nil || ref.Hash(th) != tr.MTH(N)) {
			res.Fail("C03", "store-untouched", "the tree hash read from the store after proving is not the RFC 6962 tree hash", "tree %d: TreeHash = %v, %v", N, th, err)
		}
	}
	honest2 := c03Tuple{proof: toTlog(want2), t: t2, n: n2, th: tlog.Hash(tr.MTH(t2)), h: tlog.Hash(tr.MTH(n2))}
	on2 := 1 + int64(src.Uint64n(uint64(t2)))
	other2 := toTlog(tr.Proof(on2, t2))
	for i := 0; i < nm; i++ {
		kind := c03Mutations[src.Intn(len(c03Mutations))]
		if i == 0 {
			kind = "none"
		}
		m := c03Mutate(src, tr, honest2, kind, other2)
		if kind == "leaf-replaced" {
			// for CheckTree the fifth argument is the old root
			m.h = tlog.Hash(tr.MTH(1 + int64(src.Uint64n(uint64(tr.N())))))
		}
		var cerr error
		if !c03Guard(res, "CheckTree/"+kind, func() { cerr = tlog.CheckTree(tlog.TreeProof(m.proof), m.t, m.th, m.n, m.h) }) {
			continue
		}
		refOK := ref.VerifyConsistency(toRef(m.proof), m.n, m.t, ref.Hash(m.h), ref.Hash(m.th))
		res.Faults["transit:"+kind]++
		if (cerr == nil) != refOK {
			res.Fail("C03", "checktree-iff-rfc9162", "CheckTree disagrees with the RFC 9162 consistency verification",
				"after mutation %q: CheckTree(proof of %d hashes, t=%d, n=%d) = %v but the RFC 9162 algorithm says accept=%v (original: t=%d n=%d, %d hashes)", kind, len(m.proof), m.t, m.n, cerr, refOK, t2, n2, len(want2))
		}
		if refOK && kind != "none" {
			res.Probes["mutation-left-tuple-valid"]++
		}
	}

	// ---- sizes beyond 2^61: no store can exist, but the checkers must still accept the genuine proof ----
	if src.Bool(1, 6) {
		ht := int64(1)<<uint(src.Range(61, 62)) + int64(src.Uint64n(1<<61)) - 1
		if src.Bool(1, 3) {
			ht = 1<<63 - 1 - int64(src.Intn(3))
		}
		if ht < 2 {
			ht = 1<<62 + 1
		}
		hv := ref.NewUniformTree(ht, ref.LeafHash([]byte("uniform")))
		hn := int64(src.Uint64n(uint64(ht)))
		if src.Bool(1, 3) {
			hn = ht - 1
		}
		path := toTlog(hv.Path(hn, ht))
		var cerr error
		if c03Guard(res, "CheckRecord/huge", func() {
			cerr = tlog.CheckRecord(tlog.RecordProof(path), ht, tlog.Hash(hv.MTH(ht)), hn, tlog.Hash(hv.Sub(0, 0)))
		}) && cerr != nil {
			res.Fail("C03", "check-accepts-proof", "CheckRecord rejects the genuine proof", "tree size %d (> 2^61), index %d, %d hashes: %v", ht, hn, len(path), cerr)
		}
		hm := 1 + int64(src.Uint64n(uint64(ht)))
		proof := toTlog(hv.Proof(hm, ht))
		if c03Guard(res, "CheckTree/huge", func() {
			cerr = tlog.CheckTree(tlog.TreeProof(proof), ht, tlog.Hash(hv.MTH(ht)), hm, tlog.Hash(hv.MTH(hm)))
		}) && cerr != nil {
			res.Fail("C03", "check-accepts-proof", "CheckTree rejects the genuine proof", "tree size %d (> 2^61), older size %d, %d hashes: %v", ht, hm, len(proof), cerr)
		}
		res.Probes["checkers-on-sizes-above-2^61"]++
		if ht > 1<<62 {
			res.Probes["checkers-on-sizes-above-2^62"]++
		}
	}

	// ---- proofs through the authenticating tile reader on a faulty transport ----
	if !virtual && src.Bool(1, 2) {
		h := src.Range(1, 6)
		p := &c10Params{H: h, Steps: []int64{N}}
		nf := src.Weighted(2, 3, 1)
		for i := 0; i < nf; i++ {
			p.Faults = append(p.Faults, c10Fault{Ord: src.Raw(), Kind: src.Pick(len(c10FaultNames)), A: src.Raw(), B: src.Raw()})
		}
		pub := map[string]bool{}
		for _, tl := range tlog.NewTiles(h, 0, N) {
			pub[tl.Path()] = true
		}
		rd := &c10Reader{p: p, res: res, tree: tr, published: pub, N: N, faults: p.Faults}
		thr := tlog.TileHashReader(tlog.Tree{N: N, Hash: tlog.Hash(tr.MTH(N))}, rd)
		pn := int64(src.Uint64n(uint64(N)))
		var prp tlog.RecordProof
		if c03Guard(res, "ProveRecord/tiles", func() { prp, err = tlog.ProveRecord(N, pn, thr) }) {
			faulted := rd.delivered > 0 || rd.countBad
			switch {
			case err == nil && !eqHashes(prp, tr.Path(pn, N)):
				res.Fail("C03", "prove-through-tiles", "a proof read through the authenticating tile reader differs from the RFC 6962 audit path", "ProveRecord(%d, %d) through tiles of height %d with faults %v", N, pn, h, res.Faults)
			case err != nil && !faulted:
				res.Fail("C03", "prove-complete", "ProveRecord through honest tiles failed", "ProveRecord(%d, %d) height %d: %v", N, pn, h, err)
			}
			res.Probes["proof-through-tile-reader"]++
		}
	}
	res.Steps = st.calls + st2.calls
	res.Sig = choice.Mix(uint64(N), uint64(t), uint64(n), uint64(t2), uint64(n2), res.Digest)
	res.Trivial = N < 2
	res.Sample = map[string]interface{}{"tree_size": N, "virtual_uniform_tree": virtual, "inclusion": []int64{n, t}, "consistency": []int64{n2, t2}, "transit_mutations": res.Faults}
	return res
}

func toTlog(p []ref.Hash) []tlog.Hash {
	out := make([]tlog.Hash, len(p))
	for i := range p {
		out[i] = tlog.Hash(p[i])
	}
	return out
}

func firstDiff(a []tlog.Hash, b []ref.Hash) string {
	for i := range a {
		if i < len(b) && ref.Hash(a[i]) != b[i] {
			return fmt.Sprintf("; first difference at position %d", i)
		}
	}
	return ""
}

// c03Guard runs f on its own goroutine; a panic is a violation ("refused with
// an error rather than a crash") and so is not returning: these are pure
// functions that normally take microseconds, so 20 s of real time without an
// answer is reported as non-termination (the goroutine is abandoned and the
// run ends; the verdict does not depend on timing for any terminating call).
func c03Guard(res *core.Result, what string, f func()) (ok bool) {
	return guardCall(res, "C03", what, f)
}

// guardCall runs a call that normally takes microseconds on its own goroutine; a panic and 20 s without
// an answer are violations of prop (the run is then abandoned: the goroutine keeps spinning).
func guardCall(res *core.Result, prop, what string, f func()) (ok bool) {
	done := make(chan interface{}, 1)
	go func() {
		defer func() { done <- recover() }()
		f()
	}()
	select {
	case e := <-done:
		if e != nil {
			res.Fail(prop, "no-panic", what+" panicked", "%s panicked: %v", what, e)
			return false
		}
		return true
	case <-time.After(20 * time.Second):
		res.Fail(prop, "terminates", what+" does not return", "%s did not return within 20s (it normally takes microseconds): non-termination", what)
		res.Abandoned = true
		return false
	}
}

// c03SweepRun: exhaustive small space. Tape: t-1, n, mode (0 inclusion, 1 consistency).
func c03SweepRun(src *choice.Src) *core.Result {
	res := core.NewResult()
	t := int64(1 + src.Intn(512))
	n := int64(src.Intn(513))
	mode := src.Intn(2)
	tr := c03SweepTree(t)
	st := &c03Store{tree: tr}
	if mode == 0 {
		if n >= t {
			n = t - 1
		}
		var p tlog.RecordProof
		var err error
		if c03Guard(res, "ProveRecord", func() { p, err = tlog.ProveRecord(t, n, st) }) {
			want := tr.Path(n, t)
			if err != nil || !eqHashes(p, want) {
				res.Fail("C03", "prove-is-rfc6962-path", "ProveRecord result is not the RFC 6962 audit path", "ProveRecord(%d, %d): err=%v, %d hashes, want %d", t, n, err, len(p), len(want))
			}
			if cerr := tlog.CheckRecord(p, t, tlog.Hash(tr.MTH(t)), n, tlog.Hash(tr.Sub(0, n))); cerr != nil {
				res.Fail("C03", "check-accepts-proof", "CheckRecord rejects the genuine proof", "CheckRecord(%d, %d): %v", t, n, cerr)
			}
			// every single-position change of size or index with the genuine proof
			for dt := int64(-2); dt <= 2; dt++ {
				for dn := int64(-2); dn <= 2; dn++ {
					var cerr error
					mt, mn := t+dt, n+dn
					if !c03Guard(res, "CheckRecord", func() { cerr = tlog.CheckRecord(p, mt, tlog.Hash(tr.MTH(t)), mn, tlog.Hash(tr.Sub(0, n))) }) {
						continue
					}
					refOK := ref.VerifyInclusion(want, mt, mn, tr.Sub(0, n), tr.MTH(t))
					if (cerr == nil) != refOK {
						res.Fail("C03", "checkrecord-iff-rfc9162", "CheckRecord disagrees with the RFC 9162 inclusion verification", "genuine proof for (t=%d, n=%d) presented as (t=%d, n=%d): CheckRecord=%v reference accept=%v", t, n, mt, mn, cerr, refOK)
					}
				}
			}
		}
	} else {
		if n < 1 {
			n = 1
		}
		if n > t {
			n = t
		}
		var p tlog.TreeProof
		var err error
		if c03Guard(res, "ProveTree", func() { p, err = tlog.ProveTree(t, n, st) }) {
			want := tr.Proof(n, t)
			if err != nil || !eqHashes(p, want) {
				res.Fail("C03", "prove-is-rfc6962-proof", "ProveTree result is not the RFC 6962 consistency proof", "ProveTree(%d, %d): err=%v, %d hashes, want %d", t, n, err, len(p), len(want))
			}
			if cerr := tlog.CheckTree(p, t, tlog.Hash(tr.MTH(t)), n, tlog.Hash(tr.MTH(n))); cerr != nil {
				res.Fail("C03", "check-accepts-proof", "CheckTree rejects the genuine proof", "CheckTree(%d, %d): %v", t, n, cerr)
			}
			for dt := int64(-2); dt <= 2; dt++ {
				for dn := int64(-2); dn <= 2; dn++ {
					var cerr error
					mt, mn := t+dt, n+dn
					if !c03Guard(res, "CheckTree", func() { cerr = tlog.CheckTree(p, mt, tlog.Hash(tr.MTH(t)), mn, tlog.Hash(tr.MTH(n))) }) {
						continue
					}
					refOK := ref.VerifyConsistency(want, mn, mt, tr.MTH(n), tr.MTH(t))
					if (cerr == nil) != refOK {
						res.Fail("C03", "checktree-iff-rfc9162", "CheckTree disagrees with the RFC 9162 consistency verification", "genuine proof for (t=%d, n=%d) presented as (t=%d, n=%d): CheckTree=%v reference accept=%v", t, n, mt, mn, cerr, refOK)
					}
				}
			}
		}
	}
	res.Steps = st.calls
	res.Sig = choice.Mix(uint64(t), uint64(n), uint64(mode))
	res.Sample = map[string]interface{}{"t": t, "n": n, "mode": []string{"inclusion", "consistency"}[mode]}
	return res
}

var c03SweepTrees = map[int64]*ref.Tree{}

func c03SweepTree(t int64) *ref.Tree {
	if tr, ok := c03SweepTrees[t]; ok {
		return tr
	}
	tr := ref.NewTree()
	for i := int64(0); i < t; i++ {
		tr.Append([]byte(fmt.Sprintf("sweep record %d\n", i)))
	}
	if len(c03SweepTrees) > 64 {
		c03SweepTrees = map[int64]*ref.Tree{}
	}
	c03SweepTrees[t] = tr
	return tr
}

func c03Enumerate(quick bool, seed uint64, shard, nshards int, emit func([]uint64) bool) bool {
	max := 160
	if quick {
		max = 72
	}
	for t := 1; t <= max; t++ {
		if t%nshards != shard {
			continue
		}
		for n := 0; n <= t; n++ {
			if n < t {
				if !emit([]uint64{uint64(t - 1), uint64(n), 0}) {
					return false
				}
			}
			if n >= 1 {
				if !emit([]uint64{uint64(t - 1), uint64(n), 1}) {
					return false
				}
			}
		}
	}
	return true
}

func init() {
	core.Register(&core.Prop{
		ID: "C03",
		Entries: []core.Entry{
			{Name: "explore", Run: c03Explore},
			{Name: "sweep", Run: c03SweepRun},
		},
		Explore: []string{"explore"},
		Sweeps: []core.Sweep{{Name: "all-pairs", Entry: "sweep", Enumerate: c03Enumerate,
			Space: "every (t, n) with t <= 160 (quick 72): genuine proof equals the reference, is accepted, and presented under every (t+dt, n+dn), |dt|,|dn| <= 2, is accepted iff the RFC 9162 algorithm accepts"}},
		Rule: "explore: seeded trees of 1-300 records with real content or virtual uniform trees of up to 2^41 leaves; proofs obtained through a store that may fail (error/short/long result) or through the authenticating tile reader on a faulty transport; 1-4 in-transit mutations of 22 kinds per tuple. " +
			"Distinct = (tree size, indices, mutation log digest); non-trivial = tree of at least 2 records. NOTE: the soundness half is a pure relation on the tuple; the simulator contributes the HashReader/tile-transport fault model and the real consumer in C13.",
		Real:        []string{"tlog.ProveRecord, ProveTree, CheckRecord, CheckTree", "tlog.TileHashReader (for proofs through tiles)"},
		Stub:        []string{"log store (HashReader) with faults", "corrupting channel between prover and verifier", "reference prover and RFC 9162 verifiers (oracles)"},
		Assumptions: []string{"SHA-256 collision resistance", "reference implementations in sim/ref follow RFC 6962 2.1.1/2.1.2 and RFC 9162 2.1.3.2/2.1.4.2"},
	})
	core.ExpectProbes("C03", "checkers-on-sizes-above-2^62", "virtual-tree-above-2^32", "mutation-left-tuple-valid", "proof-through-tile-reader")
}
