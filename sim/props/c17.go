package props

import (
	"archive/zip"
	"bytes"
	"fmt"
	"io"
	"os"
	"path"
	"path/filepath"
	"sort"
	"strings"

	"golang.org/x/mod/module"
	modzip "golang.org/x/mod/zip"

	"verif/sim/choice"
	"verif/sim/core"
)

// C17: which files belong in a module zip is a fixed function of the tree.
//
// Simulator-owned dimensions: the order in which the environment lists the
// files (several permutations per run), Lstat results including errors, the
// go version in the root go.mod (absent, old, new, unparsable, unreadable),
// and materialisation of the same tree on the real file system for the
// directory variants. There are no other faults to inject here.

// zipGoVerOf derives what the reference believes about the go version.
func zipGoVerOf(t *zipTree) (ver string, certain bool) {
	var roots []*simFile
	for _, f := range t.files {
		if f.path == "go.mod" && f.lstatErr == nil && f.mode.IsRegular() {
			roots = append(roots, f)
		}
	}
	if len(roots) == 0 {
		return "", true
	}
	if len(roots) > 1 {
		return "", false
	}
	f := roots[0]
	if f.openErr != nil || f.readErr >= 0 {
		return "", false
	}
	for _, g := range zipGoVersions {
		if g.text == string(f.content) {
			return g.v, true
		}
	}
	return "", true // generated filler content has no go directive
}

func walkLess(a, b string) bool {
	as, bs := strings.Split(a, "/"), strings.Split(b, "/")
	for i := 0; i < len(as) && i < len(bs); i++ {
		if as[i] != bs[i] {
			return as[i] < bs[i]
		}
	}
	return len(as) < len(bs)
}

// judgeCheckedFiles compares one CheckFiles report with the reference.
func judgeCheckedFiles(res *core.Result, prop, what string, files []*simFile, cf modzip.CheckedFiles, allowed []int, collide [][2]int) {
	count := map[string]int{}
	for _, f := range files {
		count[f.path]++
	}
	got := map[string]int{}
	validCount := map[string]int{}
	for _, p := range cf.Valid {
		got[p] |= clsValid
		validCount[p]++
	}
	for _, e := range cf.Omitted {
		got[e.Path] |= clsOmitted
	}
	for _, e := range cf.Invalid {
		got[e.Path] |= clsInvalid
	}
	for p := range got {
		if count[p] == 0 {
			res.Fail(prop, "report-mentions-only-inputs", "the report lists a path that was not given", "%s: %q is reported as %s but is not in the input", what, p, clsName(got[p]))
		}
	}
	for i, f := range files {
		g := got[f.path]
		if g == 0 {
			res.Fail(prop, "exactly-one-list", "a file is in none of valid/omitted/invalid", "%s: %q (mode %v) appears in no list", what, f.path, f.mode)
			continue
		}
		if count[f.path] == 1 {
			if g&(g-1) != 0 {
				res.Fail(prop, "exactly-one-list", "a file is in more than one of valid/omitted/invalid", "%s: %q appears as %s", what, f.path, clsName(g))
				continue
			}
			if g&allowed[i] == 0 {
				res.Fail(prop, "class-by-documented-rules", "a file is classified against the documented rules",
					"%s: %q (mode %v, size %d) is reported %s; the documented rules give %s", what, f.path, f.mode, f.size, clsName(g), clsName(allowed[i]))
			}
		} else {
			// duplicated path: all instances share the report lines; at most one instance may be valid
			if validCount[f.path] > 1 {
				res.Fail(prop, "duplicates-not-both-valid", "a path given twice is valid twice", "%s: %q", what, f.path)
			}
			union := 0
			for j, o := range files {
				if o.path == f.path {
					union |= allowed[j]
				}
			}
			if g&^union != 0 {
				res.Fail(prop, "class-by-documented-rules", "a file is classified against the documented rules", "%s: duplicated path %q reported %s; allowed %s", what, f.path, clsName(g), clsName(union))
			}
		}
	}
	for _, pr := range collide {
		a, b := files[pr[0]].path, files[pr[1]].path
		if a != b && got[a]&clsValid != 0 && got[b]&clsValid != 0 {
			res.Fail(prop, "collision-detected", "two colliding files are both reported valid", "%s: %q and %q cannot coexist (case folding or file/directory clash) but both are valid", what, a, b)
		}
		if a == b && validCount[a] > 1 {
			res.Fail(prop, "collision-detected", "a duplicated file is valid twice", "%s: %q", what, a)
		}
	}
	if len(collide) > 0 && cf.Err() == nil {
		res.Fail(prop, "collision-detected", "colliding files but no error reported", "%s: %d colliding pairs, report has no error", what, len(collide))
	}
}

func c17Explore(src *choice.Src) *core.Result {
	res := core.NewResult()
	t := genZipTree(src, 14)
	// environment behaviours: Lstat errors, unreadable root go.mod
	for _, f := range t.files {
		if src.Bool(1, 25) {
			f.lstatErr = errSimIO
		}
		if f.path == "go.mod" && src.Bool(1, 12) {
			if src.Bool(1, 2) {
				f.openErr = errSimIO
			} else {
				f.readErr = src.Intn(len(f.content) + 1)
			}
		}
		// reported sizes around the limits (CheckFiles never reads contents)
		if (f.path == "go.mod" || f.path == "LICENSE" || strings.HasSuffix(f.path, "/LICENSE")) && src.Bool(1, 6) {
			f.size = []int64{16 << 20, 16<<20 + 1, 17 << 20}[src.Intn(3)]
			f.virtual = f.path != "go.mod"
		}
		if src.Bool(1, 60) {
			f.size = []int64{500 << 20, 500<<20 + 1, 1 << 40, -1}[src.Intn(4)]
			f.virtual = f.path != "go.mod" // the root go.mod is read in full by the check: keep its real (small) content
		}
	}
	goVer, certain := zipGoVerOf(t)
	allowed, collide := refClassify(t.files, goVer, certain)
	res.Logf("C17 tree of %d files, go %q (certain=%v)", len(t.files), goVer, certain)
	nperm := src.Range(3, 6)
	type outcome struct {
		class map[string]int
		err   bool
	}
	var outs []outcome
	for k := 0; k < nperm && res.Violation == nil; k++ {
		perm := src.Perm(len(t.files))
		if k == 0 {
			for i := range perm {
				perm[i] = i
			}
		}
		files := make([]*simFile, len(perm))
		al := make([]int, len(perm))
		idx := make([]int, len(t.files))
		for i, p := range perm {
			files[i] = t.files[p]
			al[i] = allowed[p]
			idx[p] = i
		}
		var coll [][2]int
		for _, pr := range collide {
			coll = append(coll, [2]int{idx[pr[0]], idx[pr[1]]})
		}
		list := make([]modzip.File, len(files))
		for i, f := range files {
			list[i] = f
		}
		var cf modzip.CheckedFiles
		var err error
		func() {
			defer func() {
				if e := recover(); e != nil {
					res.Fail("C17", "no-panic", "CheckFiles panicked", "%v", e)
				}
			}()
			cf, err = modzip.CheckFiles(list)
		}()
		res.Steps++
		if res.Violation != nil {
			break
		}
		judgeCheckedFiles(res, "C17", fmt.Sprintf("listing order #%d", k), files, cf, al, coll)
		o := outcome{class: map[string]int{}, err: err != nil}
		for _, p := range cf.Valid {
			o.class[p] |= clsValid
		}
		for _, e := range cf.Omitted {
			o.class[e.Path] |= clsOmitted
		}
		for _, e := range cf.Invalid {
			o.class[e.Path] |= clsInvalid
		}
		outs = append(outs, o)
	}
	// order independence: files outside any collision keep their class in every order
	inColl := map[string]bool{}
	for i := range t.files {
		if allowed[i]&(allowed[i]-1) != 0 {
			inColl[t.files[i].path] = true
		}
	}
	for k := 1; k < len(outs) && res.Violation == nil; k++ {
		for p, c := range outs[0].class {
			if !inColl[p] && outs[k].class[p] != c {
				res.Fail("C17", "order-independent", "a file's class depends on the order of the input list", "%q is %s in the given order and %s in permutation #%d", p, clsName(c), clsName(outs[k].class[p]), k)
			}
		}
		if outs[k].err != outs[0].err {
			res.Fail("C17", "order-independent", "whether the check reports an error depends on the order of the input list", "error=%v in the given order, %v in permutation #%d", outs[0].err, outs[k].err, k)
		}
	}
	for k, v := range t.stats.faultsDelivered {
		res.Faults[k] += v
	}
	if len(collide) > 0 {
		res.Probes["tree-with-collision"]++
	}
	if certain && goVer != "" {
		res.Probes["go-version-known"]++
	}
	if !certain {
		res.Probes["go-version-uncertain"]++
	}

	// ---- directory variants on the real file system ----
	if res.Violation == nil && src.Bool(1, 2) {
		c17DirVariant(src, res)
	}
	var names []string
	for _, f := range t.files {
		names = append(names, fmt.Sprintf("%s:%v", f.path, f.mode&os.ModeType))
	}
	sort.Strings(names)
	res.Sig = choice.MixString(strings.Join(names, "|") + goVer)
	res.Trivial = len(t.files) == 0
	res.Sample = map[string]interface{}{"files": names, "go_version": goVer, "permutations": nperm, "colliding_pairs": len(collide)}
	return res
}

// materializable reports whether the tree can exist on the real file system as regular files.
func materializable(files []*simFile) bool {
	seen := map[string]bool{}
	dirs := map[string]bool{}
	for _, f := range files {
		p := f.path
		if p != path.Clean(p) || path.IsAbs(p) || p == "." || strings.HasPrefix(p, "../") || p == ".." || strings.ContainsRune(p, 0) {
			return false
		}
		elems := strings.Split(p, "/")
		for i, e := range elems {
			if e == "" || e == "." || e == ".." || len(e) > 200 {
				return false
			}
			if i < len(elems)-1 {
				switch e {
				case ".git", ".hg", ".svn", ".bzr":
					return false
				}
				dirs[strings.Join(elems[:i+1], "/")] = true
			}
		}
		if seen[p] {
			return false
		}
		seen[p] = true
	}
	for p := range seen {
		if dirs[p] {
			return false
		}
	}
	return true
}

func c17DirVariant(src *choice.Src, res *core.Result) {
	// a fresh tree of regular files with clean names (still adversarial: case variants, vendor, nested go.mod)
	t := genZipTree(src, 12)
	var keep []*simFile
	seen := map[string]bool{}
	for _, f := range t.files {
		f.mode = 0o644
		if f.path == path.Clean(f.path) && !path.IsAbs(f.path) && !seen[f.path] {
			seen[f.path] = true
			keep = append(keep, f)
		}
	}
	// drop files that clash with directories
	var files []*simFile
	for _, f := range keep {
		clash := false
		for _, g := range keep {
			if strings.HasPrefix(g.path, f.path+"/") {
				clash = true
			}
		}
		if !clash {
			files = append(files, f)
		}
	}
	if !materializable(files) {
		res.Probes["dir-variant-skipped-not-materializable"]++
		return
	}
	sort.Slice(files, func(i, j int) bool { return walkLess(files[i].path, files[j].path) })
	root, err := mkScratch("d")
	if err != nil {
		core.SetHarnessError("c17: " + err.Error())
		return
	}
	defer os.RemoveAll(root)
	res.Scrub(root)
	dir := filepath.Join(root, "src")
	for _, f := range files {
		dst := filepath.Join(dir, filepath.FromSlash(f.path))
		if err := os.MkdirAll(filepath.Dir(dst), 0o755); err != nil {
			res.Probes["dir-variant-skipped-fs-refused-name"]++
			return
		}
		if err := os.WriteFile(dst, f.content, 0o644); err != nil {
			res.Probes["dir-variant-skipped-fs-refused-name"]++
			return
		}
	}
	os.MkdirAll(dir, 0o755)
	m := module.Version{Path: "example.com/m", Version: "v1.2.3"}
	list := make([]modzip.File, len(files))
	for i, f := range files {
		list[i] = f
	}
	var b1, b2 bytes.Buffer
	err1 := modzip.Create(&b1, m, list)
	err2 := modzip.CreateFromDir(&b2, m, dir)
	res.Steps += 2
	res.Probes["dir-variant-run"]++
	if (err1 == nil) != (err2 == nil) {
		res.Fail("C17", "dir-equals-list", "creating from the directory and from the list of its files do not succeed or fail together",
			"tree %v: Create(list) error=%v; CreateFromDir error=%v", pathsOf(files), err1, err2)
		return
	}
	if err1 == nil {
		e1, x1 := zipListing(b1.Bytes())
		e2, x2 := zipListing(b2.Bytes())
		if x1 != nil || x2 != nil {
			res.Fail("C17", "dir-equals-list", "a created archive cannot be read back", "%v %v", x1, x2)
			return
		}
		if fmt.Sprint(e1) != fmt.Sprint(e2) {
			res.Fail("C17", "dir-equals-list", "creating from the directory and from the list of its files include different files or content",
				"tree %v: list archive has %v; directory archive has %v", pathsOf(files), e1, e2)
			return
		}
	}
	cfL, _ := modzip.CheckFiles(list)
	cfD, errD := modzip.CheckDir(dir)
	_ = errD
	strip := func(ps []string) []string {
		var out []string
		for _, p := range ps {
			rel, err := filepath.Rel(dir, p)
			if err != nil {
				rel = p
			}
			out = append(out, filepath.ToSlash(rel))
		}
		sort.Strings(out)
		return out
	}
	var invL, invD []string
	for _, e := range cfL.Invalid {
		invL = append(invL, e.Path)
	}
	for _, e := range cfD.Invalid {
		invD = append(invD, e.Path)
	}
	sort.Strings(invL)
	if fmt.Sprint(sortedCopy(cfL.Valid)) != fmt.Sprint(strip(cfD.Valid)) {
		res.Fail("C17", "checkdir-equals-checkfiles", "the directory check and the list check report different valid files", "tree %v: list check valid %v; directory check valid %v", pathsOf(files), sortedCopy(cfL.Valid), strip(cfD.Valid))
	} else if fmt.Sprint(invL) != fmt.Sprint(strip(invD)) {
		res.Fail("C17", "checkdir-equals-checkfiles", "the directory check and the list check report different invalid files", "tree %v: list check invalid %v; directory check invalid %v", pathsOf(files), invL, strip(invD))
	}
}

func pathsOf(files []*simFile) []string {
	var out []string
	for _, f := range files {
		out = append(out, f.path)
	}
	return out
}

// zipListing decodes an archive into "name=content-digest" strings sorted by name.
func zipListing(b []byte) ([]string, error) {
	zr, err := zip.NewReader(bytes.NewReader(b), int64(len(b)))
	if err != nil {
		return nil, err
	}
	var out []string
	for _, f := range zr.File {
		rc, err := f.Open()
		if err != nil {
			return nil, err
		}
		data, err := io.ReadAll(rc)
		rc.Close()
		if err != nil {
			return nil, err
		}
		out = append(out, fmt.Sprintf("%s=%d:%016x", f.Name, len(data), choice.MixString(string(data))))
	}
	sort.Strings(out)
	return out, nil
}

func init() {
	core.Register(&core.Prop{
		ID:      "C17",
		Entries: []core.Entry{{Name: "explore", Run: c17Explore}},
		Explore: []string{"explore"},
		Rule: "explore: seeded trees of 0-14 files over an adversarial name alphabet (case variants and multi-member fold orbits, vendor layouts, nested go.mod in any case, reserved and ill-formed names, unclean and absolute paths, duplicates, file/directory clashes), symlink/directory/pipe/device modes, reported sizes at the limits, root go.mod with go versions absent/<1.24/>=1.24/unparsable/unreadable, Lstat errors; CheckFiles on 3-6 listing orders; half of the runs materialise a second tree on the real file system for CreateFromDir/CheckDir versus Create/CheckFiles. " +
			"Distinct = the multiset of (path, mode) and the go version; non-trivial = at least one file. NOTE: weak fit - there is no fault surface beyond listing order and Lstat/go.mod read results; the deciding part is the comparison with the reference classifier.",
		Real:        []string{"zip.CheckFiles, CheckDir, Create, CreateFromDir (listFilesInDir, isVendoredPackage, collisionChecker)", "module.CheckFilePath"},
		Stub:        []string{"zip.File implementations (names, modes, sizes, Lstat/Open/Read results)", "listing order", "reference classifier from the documented rules"},
		Assumptions: []string{"where the documentation is silent (which member of a collision is reported, which go version applies with duplicated or unreadable root go.mod) every reading is accepted", "directory variants run on the sandbox's real file system (case-sensitive)"},
	})
	core.ExpectProbes("C17", "tree-with-collision", "go-version-known", "go-version-uncertain", "dir-variant-run")
}
