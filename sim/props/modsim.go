package props

import (
	"fmt"
	"sort"
	"strconv"
	"strings"

	"golang.org/x/mod/modfile"
	"golang.org/x/mod/module"

	"verif/sim/choice"
	"verif/sim/core"
	"verif/sim/ref"
)

// modsim: edit sessions on go.mod / go.work against a set/map reference model.
//
// modfile performs no I/O and has no concurrency, so nothing can be
// injected. What the simulator owns is the session: a generated well-formed
// starting file in which every directive line carries uniquely numbered
// leading and end-of-line comments, a history of operations with valid
// arguments over small pools (so that they collide), and persistence points
// at which the session is closed (Cleanup, Format) and resumed in a "new
// process" from Parse of the bytes.

// ---- pools ----

type modPool struct {
	path  string
	versV []string
}

var modPaths = []modPool{
	{"example.com/a", []string{"v1.0.0", "v1.2.3", "v1.10.0", "v1.2.3-pre.1", "v0.0.0-20200101000000-abcdefabcdef"}},
	{"example.com/b", []string{"v1.0.0", "v1.9.0", "v1.10.0", "v0.3.1"}},
	{"example.com/c/v2", []string{"v2.0.0", "v2.1.0", "v2.10.3"}},
	{"golang.org/x/net", []string{"v0.1.0", "v0.17.0", "v0.2.0"}},
	{"gopkg.in/yaml.v3", []string{"v3.0.0", "v3.0.1"}},
	{"rsc.io/quote", []string{"v1.5.2", "v1.5.3-pre1"}},
	{"example.com/d", []string{"v2.0.0+incompatible", "v1.4.0", "v3.1.0+incompatible", "v2.0.1-rc.1+incompatible"}},
}

var modLocalDirs = []string{"../local", "./sub/mod", "../my mod"} // the last one needs quoting
var modGodebugKeys = []string{"panicnil", "http2client", "x509sha1"}
var modTools = []string{"example.com/a/cmd/t", "golang.org/x/tools/cmd/stringer", "example.com/b/tool"}
var modGoVersions = []string{"1.19", "1.20", "1.21", "1.22.1", "1.23", "1.9", "1.5", "1.21rc1", "1.100", "1.22rc1", "1.25rc2", "1.20rc3"}
var modToolchains = []string{"go1.21.0", "go1.22.1", "go1.23.4"}
var modOwnVersions = []string{"v1.0.0", "v1.1.0", "v1.2.0", "v1.3.0-rc.1", "v1.9.9", "v2.0.0+incompatible", "v2.1.0+incompatible"}
var modRationales = []string{"", "bad release", "security: CVE-1\nuse v1.2.4 instead"}
var workUseDirs = []string{"./a", "./b", "../c", "./sub/d", "./my mod"}

// ---- model ----

type mEntry struct {
	kind       string
	a, b, c, d string
	indirect   bool
	id         int  // number of the initial line this entry came from (0: added later)
	lead       int  // number of leading comment lines the initial line had
	touched    bool // targeted by some operation (exempt from the comment-survival check)
}

func (e mEntry) canon() string {
	return fmt.Sprintf("%s|%s|%s|%s|%s|%v", e.kind, e.a, e.b, e.c, e.d, e.indirect)
}

type mModel struct {
	work          bool
	module        string
	goV           string
	toolchain     string
	scalarTouched map[string]bool // "module", "go", "toolchain"
	scalarID      map[string]int
	entries       []mEntry // all kinds, in list order per kind
	// looseRationale: the file has a commented retract block. What the rationale of a retraction in such
	// a block is depends on where lines end up (a line without comments of its own is explained by the
	// block's comment; collapsing a one-line block merges the two), which the set/map model does not
	// follow: C08 then compares retractions by interval only; C15 still compares memory and file in full.
	looseRationale bool
	// skipDedup: this reading does not de-duplicate as a side effect of the operation being applied
	// (the property allows the documented de-duplication, it does not say which operations perform it)
	skipDedup bool
}

func (m *mModel) clone() *mModel {
	c := *m
	c.entries = append([]mEntry(nil), m.entries...)
	c.scalarTouched = map[string]bool{}
	for k, v := range m.scalarTouched {
		c.scalarTouched[k] = v
	}
	c.scalarID = map[string]int{}
	for k, v := range m.scalarID {
		c.scalarID[k] = v
	}
	return &c
}

func (m *mModel) canonList() []string {
	out := []string{"module=" + m.module, "go=" + m.goV, "toolchain=" + m.toolchain}
	for _, e := range m.entries {
		out = append(out, e.canon())
	}
	sort.Strings(out)
	return out
}

// each applies f to the entries of a kind; f returns (keep, replacement).
func (m *mModel) filter(kind string, f func(e *mEntry) bool) {
	var out []mEntry
	for i := range m.entries {
		e := m.entries[i]
		if e.kind != kind || f(&e) {
			out = append(out, e)
		}
	}
	m.entries = out
}

func (m *mModel) kindEntries(kind string) []*mEntry {
	var out []*mEntry
	for i := range m.entries {
		if m.entries[i].kind == kind {
			out = append(out, &m.entries[i])
		}
	}
	return out
}

func (m *mModel) add(e mEntry) { m.entries = append(m.entries, e) }

// setFirst implements "set the first entry matching to ..., remove all other matching entries; add if none".
// preserve: the operation documents that the updated line keeps its comments (so the line stays
// subject to the comment-survival check); otherwise the updated line counts as targeted.
func (m *mModel) setFirst(kind string, preserve bool, match func(e *mEntry) bool, update func(e *mEntry), fresh mEntry) {
	found := false
	var out []mEntry
	for _, e := range m.entries {
		if e.kind == kind && match(&e) {
			if found {
				continue
			}
			found = true
			update(&e)
			if !preserve {
				e.touched = true
			}
		}
		out = append(out, e)
	}
	m.entries = out
	if !found {
		m.add(fresh)
	}
}

func (m *mModel) removeDups() {
	if m.skipDedup {
		return
	}
	// earlier exclude and tool directives win; later replace directives win
	seen := map[string]bool{}
	var out []mEntry
	for _, e := range m.entries {
		if e.kind == "exclude" || e.kind == "tool" {
			k := e.kind + "|" + e.a + "|" + e.b
			if seen[k] {
				continue
			}
			seen[k] = true
		}
		out = append(out, e)
	}
	m.entries = out
	seen = map[string]bool{}
	var rev []mEntry
	for i := len(m.entries) - 1; i >= 0; i-- {
		e := m.entries[i]
		if e.kind == "replace" {
			k := e.a + "|" + e.b
			if seen[k] {
				continue
			}
			seen[k] = true
		}
		rev = append(rev, e)
	}
	for i, j := 0, len(rev)-1; i < j; i, j = i+1, j-1 {
		rev[i], rev[j] = rev[j], rev[i]
	}
	m.entries = rev
}

// ---- operations ----

type mOp struct {
	// callerReqs / callerUses: the list objects the simulated caller owns and hands to a bulk setter. The
	// caller keeps them: it passes the same objects to its other file, may pass them again later, and
	// expects to find them as it left them.
	callerReqs []*modfile.Require
	callerUses []*modfile.Use
	name       string
	a, b, c, d string
	flag       bool
	reqs       []mEntry // for bulk setters
}

func (o mOp) String() string {
	switch o.name {
	case "SetRequire", "SetRequireSeparateIndirect", "SetUse":
		var parts []string
		for _, r := range o.reqs {
			parts = append(parts, strings.TrimRight(fmt.Sprintf("%s %s %v", r.a, r.b, r.indirect), " "))
		}
		return o.name + "(" + strings.Join(parts, "; ") + ")"
	}
	return strings.TrimRight(fmt.Sprintf("%s(%q %q %q %q %v)", o.name, o.a, o.b, o.c, o.d, o.flag), " ")
}

func drawModVer(src *choice.Src) (string, string) {
	p := modPaths[src.Intn(len(modPaths))]
	return p.path, p.versV[src.Intn(len(p.versV))]
}

func drawOp(src *choice.Src, work bool) mOp {
	if work {
		switch src.Weighted(2, 1, 1, 1, 3, 2, 4, 2, 3, 3, 2, 2, 2) {
		case 0:
			return mOp{name: "AddGoStmt", a: modGoVersions[src.Intn(len(modGoVersions))]}
		case 1:
			return mOp{name: "DropGoStmt"}
		case 2:
			return mOp{name: "AddToolchainStmt", a: modToolchains[src.Intn(len(modToolchains))]}
		case 3:
			return mOp{name: "DropToolchainStmt"}
		case 4:
			return mOp{name: "AddGodebug", a: modGodebugKeys[src.Intn(len(modGodebugKeys))], b: strconv.Itoa(src.Intn(2))}
		case 5:
			return mOp{name: "DropGodebug", a: modGodebugKeys[src.Intn(len(modGodebugKeys))]}
		case 6:
			return mOp{name: "AddUse", a: workUseDirs[src.Intn(len(workUseDirs))]}
		case 7:
			return mOp{name: "AddNewUse", a: workUseDirs[src.Intn(len(workUseDirs))]}
		case 8:
			return mOp{name: "DropUse", a: workUseDirs[src.Intn(len(workUseDirs))]}
		case 9:
			return drawReplaceOp(src, "AddReplace")
		case 10:
			return drawReplaceOp(src, "DropReplace")
		case 11:
			return mOp{name: "SortBlocks"}
		default:
			return mOp{name: "Cleanup"}
		}
	}
	switch src.Weighted(2, 1, 1, 1, 3, 2, 5, 2, 3, 3, 2, 4, 3, 3, 2, 3, 2, 2, 2, 1) {
	case 0:
		return mOp{name: "AddGoStmt", a: modGoVersions[src.Intn(len(modGoVersions))]}
	case 1:
		return mOp{name: "DropGoStmt"}
	case 2:
		return mOp{name: "AddToolchainStmt", a: modToolchains[src.Intn(len(modToolchains))]}
	case 3:
		return mOp{name: "DropToolchainStmt"}
	case 4:
		return mOp{name: "AddGodebug", a: modGodebugKeys[src.Intn(len(modGodebugKeys))], b: strconv.Itoa(src.Intn(2))}
	case 5:
		return mOp{name: "DropGodebug", a: modGodebugKeys[src.Intn(len(modGodebugKeys))]}
	case 6:
		p, v := drawModVer(src)
		return mOp{name: "AddRequire", a: p, b: v}
	case 7:
		p, v := drawModVer(src)
		return mOp{name: "AddNewRequire", a: p, b: v, flag: src.Bool(1, 3)}
	case 8:
		p, _ := drawModVer(src)
		return mOp{name: "DropRequire", a: p}
	case 9:
		p, v := drawModVer(src)
		return mOp{name: "AddExclude", a: p, b: v}
	case 10:
		p, v := drawModVer(src)
		return mOp{name: "DropExclude", a: p, b: v}
	case 11:
		return drawReplaceOp(src, "AddReplace")
	case 12:
		return drawReplaceOp(src, "DropReplace")
	case 13:
		lo := src.Intn(len(modOwnVersions))
		hi := lo
		if src.Bool(1, 2) {
			hi = lo + src.Intn(len(modOwnVersions)-lo)
		}
		return mOp{name: "AddRetract", a: modOwnVersions[lo], b: modOwnVersions[hi], c: modRationales[src.Intn(len(modRationales))]}
	case 14:
		lo := src.Intn(len(modOwnVersions))
		hi := lo
		if src.Bool(1, 2) {
			hi = lo + src.Intn(len(modOwnVersions)-lo)
		}
		return mOp{name: "DropRetract", a: modOwnVersions[lo], b: modOwnVersions[hi]}
	case 15:
		return mOp{name: "AddTool", a: modTools[src.Intn(len(modTools))]}
	case 16:
		return mOp{name: "DropTool", a: modTools[src.Intn(len(modTools))]}
	case 17:
		return mOp{name: "SortBlocks"}
	case 18:
		return mOp{name: "Cleanup"}
	default:
		return mOp{name: "AddModuleStmt", a: []string{"example.com/m", "example.com/renamed"}[src.Intn(2)]}
	}
}

func drawReplaceOp(src *choice.Src, name string) mOp {
	p, v := drawModVer(src)
	o := mOp{name: name, a: p, b: v}
	if src.Bool(1, 2) {
		o.b = ""
	}
	if name == "AddReplace" {
		if src.Bool(1, 2) {
			o.c = modLocalDirs[src.Intn(len(modLocalDirs))]
		} else {
			o.c, o.d = drawModVer(src)
		}
	}
	return o
}

// drawBulk draws a requested requirement list with distinct paths.
func drawBulk(src *choice.Src) []mEntry {
	perm := src.Perm(len(modPaths))
	n := src.Range(0, len(modPaths))
	var out []mEntry
	for _, i := range perm[:n] {
		p := modPaths[i]
		out = append(out, mEntry{kind: "require", a: p.path, b: p.versV[src.Intn(len(p.versV))], indirect: src.Bool(1, 2)})
	}
	return out
}

func drawUses(src *choice.Src) []mEntry {
	perm := src.Perm(len(workUseDirs))
	n := src.Range(0, len(workUseDirs))
	var out []mEntry
	for _, i := range perm[:n] {
		out = append(out, mEntry{kind: "use", a: workUseDirs[i]})
	}
	return out
}

// applyModel applies op to the model by the documented semantics.
func (m *mModel) apply(o mOp) {
	switch o.name {
	case "AddModuleStmt":
		m.module = o.a
		m.scalarTouched["module"] = true
	case "AddGoStmt":
		m.goV = o.a
		m.scalarTouched["go"] = true
	case "DropGoStmt":
		m.goV = ""
		m.scalarTouched["go"] = true
	case "AddToolchainStmt":
		m.toolchain = o.a
		m.scalarTouched["toolchain"] = true
	case "DropToolchainStmt":
		m.toolchain = ""
		m.scalarTouched["toolchain"] = true
	case "AddGodebug":
		m.setFirst("godebug", true, func(e *mEntry) bool { return e.a == o.a }, func(e *mEntry) { e.b = o.b }, mEntry{kind: "godebug", a: o.a, b: o.b})
	case "DropGodebug":
		m.filter("godebug", func(e *mEntry) bool { return e.a != o.a })
	case "AddRequire":
		m.setFirst("require", true, func(e *mEntry) bool { return e.a == o.a }, func(e *mEntry) { e.b = o.b }, mEntry{kind: "require", a: o.a, b: o.b})
	case "AddNewRequire":
		m.add(mEntry{kind: "require", a: o.a, b: o.b, indirect: o.flag})
	case "DropRequire":
		m.filter("require", func(e *mEntry) bool { return e.a != o.a })
	case "AddExclude":
		for _, e := range m.kindEntries("exclude") {
			if e.a == o.a && e.b == o.b {
				e.touched = true
				return
			}
		}
		m.add(mEntry{kind: "exclude", a: o.a, b: o.b})
	case "DropExclude":
		m.filter("exclude", func(e *mEntry) bool { return !(e.a == o.a && e.b == o.b) })
	case "AddReplace":
		// an empty old version replaces all versions of the path
		m.setFirst("replace", false, func(e *mEntry) bool { return e.a == o.a && (o.b == "" || e.b == o.b) },
			func(e *mEntry) { e.a, e.b, e.c, e.d = o.a, o.b, o.c, o.d }, mEntry{kind: "replace", a: o.a, b: o.b, c: o.c, d: o.d})
	case "DropReplace":
		m.filter("replace", func(e *mEntry) bool { return !(e.a == o.a && e.b == o.b) })
	case "AddRetract":
		m.add(mEntry{kind: "retract", a: o.a, b: o.b, c: o.c})
	case "DropRetract":
		m.filter("retract", func(e *mEntry) bool { return !(e.a == o.a && e.b == o.b) })
	case "AddTool":
		for _, e := range m.kindEntries("tool") {
			if e.a == o.a {
				e.touched = true
				return
			}
		}
		m.add(mEntry{kind: "tool", a: o.a})
		m.removeDups() // AddTool sorts the blocks, which removes duplicates first
	case "DropTool":
		m.filter("tool", func(e *mEntry) bool { return e.a != o.a })
	case "SortBlocks":
		m.removeDups()
	case "Cleanup":
	case "SetRequire", "SetRequireSeparateIndirect":
		want := map[string]mEntry{}
		for _, r := range o.reqs {
			want[r.a] = r
		}
		seen := map[string]bool{}
		var out []mEntry
		for _, e := range m.entries {
			if e.kind == "require" {
				w, ok := want[e.a]
				if !ok || seen[e.a] {
					continue
				}
				seen[e.a] = true
				// documented: line comment contents are preserved for the first requirement on each path
				e.b, e.indirect = w.b, w.indirect
			}
			out = append(out, e)
		}
		m.entries = out
		for _, r := range o.reqs {
			if !seen[r.a] {
				m.add(mEntry{kind: "require", a: r.a, b: r.b, indirect: r.indirect})
			}
		}
		m.removeDups()
	case "AddUse":
		m.setFirst("use", false, func(e *mEntry) bool { return e.a == o.a }, func(e *mEntry) {}, mEntry{kind: "use", a: o.a})
	case "AddNewUse":
		m.add(mEntry{kind: "use", a: o.a})
	case "DropUse":
		m.filter("use", func(e *mEntry) bool { return e.a != o.a })
	case "SetUse":
		want := map[string]bool{}
		for _, r := range o.reqs {
			want[r.a] = true
		}
		seen := map[string]bool{}
		var out []mEntry
		for _, e := range m.entries {
			if e.kind == "use" {
				if !want[e.a] || seen[e.a] {
					continue
				}
				seen[e.a] = true
				e.touched = true
			}
			out = append(out, e)
		}
		m.entries = out
		for _, r := range o.reqs {
			if !seen[r.a] {
				m.add(mEntry{kind: "use", a: r.a})
			}
		}
		m.removeDups()
	}
}

// callerLists builds the list objects a caller would own for a bulk operation.
func (o *mOp) callerLists() {
	switch o.name {
	case "SetRequire", "SetRequireSeparateIndirect":
		o.callerReqs = []*modfile.Require{}
		for _, e := range o.reqs {
			o.callerReqs = append(o.callerReqs, &modfile.Require{Mod: module.Version{Path: e.a, Version: e.b}, Indirect: e.indirect})
		}
	case "SetUse":
		o.callerUses = []*modfile.Use{}
		for _, e := range o.reqs {
			o.callerUses = append(o.callerUses, &modfile.Use{Path: e.a})
		}
	}
}

// callerListsIntact reports how the caller's lists differ from what the caller put there ("" if not).
// Syntax is not compared: it is documented as ignored on input and the caller never looks at it.
func (o *mOp) callerListsIntact() string {
	if o.callerReqs != nil {
		if len(o.callerReqs) != len(o.reqs) {
			return fmt.Sprintf("the list has %d entries, the caller put %d", len(o.callerReqs), len(o.reqs))
		}
		for i, e := range o.reqs {
			r := o.callerReqs[i]
			if r == nil || r.Mod.Path != e.a || r.Mod.Version != e.b || r.Indirect != e.indirect {
				return fmt.Sprintf("entry %d was {%s %s indirect=%v} and is now %+v", i, e.a, e.b, e.indirect, r)
			}
		}
	}
	if o.callerUses != nil {
		if len(o.callerUses) != len(o.reqs) {
			return fmt.Sprintf("the list has %d entries, the caller put %d", len(o.callerUses), len(o.reqs))
		}
		for i, e := range o.reqs {
			u := o.callerUses[i]
			if u == nil || u.Path != e.a {
				return fmt.Sprintf("entry %d was {%s} and is now %+v", i, e.a, u)
			}
		}
	}
	return ""
}

// ---- the real file behind one interface ----

type realFile struct {
	work bool
	f    *modfile.File
	w    *modfile.WorkFile
}

func parseReal(work bool, data []byte) (*realFile, error) {
	if work {
		w, err := modfile.ParseWork("go.work", data, nil)
		if err != nil {
			return nil, err
		}
		return &realFile{work: true, w: w}, nil
	}
	f, err := modfile.Parse("go.mod", data, nil)
	if err != nil {
		return nil, err
	}
	return &realFile{f: f}, nil
}

func (r *realFile) syntax() *modfile.FileSyntax {
	if r.work {
		return r.w.Syntax
	}
	return r.f.Syntax
}

func (r *realFile) format() []byte { return modfile.Format(r.syntax()) }

func (r *realFile) cleanup() {
	if r.work {
		r.w.Cleanup()
	} else {
		r.f.Cleanup()
	}
}

// apply runs op on the real file; it returns an error text for an unexpected failure.
func (r *realFile) apply(o mOp) (err error) {
	defer func() {
		if e := recover(); e != nil {
			err = fmt.Errorf("panic: %v", e)
		}
	}()
	if r.work {
		w := r.w
		switch o.name {
		case "AddGoStmt":
			return w.AddGoStmt(o.a)
		case "DropGoStmt":
			w.DropGoStmt()
		case "AddToolchainStmt":
			return w.AddToolchainStmt(o.a)
		case "DropToolchainStmt":
			w.DropToolchainStmt()
		case "AddGodebug":
			return w.AddGodebug(o.a, o.b)
		case "DropGodebug":
			return w.DropGodebug(o.a)
		case "AddUse":
			return w.AddUse(o.a, "")
		case "AddNewUse":
			w.AddNewUse(o.a, "")
		case "DropUse":
			return w.DropUse(o.a)
		case "AddReplace":
			return w.AddReplace(o.a, o.b, o.c, o.d)
		case "DropReplace":
			return w.DropReplace(o.a, o.b)
		case "SortBlocks":
			w.SortBlocks()
		case "Cleanup":
			w.Cleanup()
		case "SetUse":
			us := o.callerUses
			if us == nil {
				for _, e := range o.reqs {
					us = append(us, &modfile.Use{Path: e.a})
				}
			}
			w.SetUse(us)
		default:
			return fmt.Errorf("harness: unknown go.work op %s", o.name)
		}
		return nil
	}
	f := r.f
	switch o.name {
	case "AddModuleStmt":
		return f.AddModuleStmt(o.a)
	case "AddGoStmt":
		return f.AddGoStmt(o.a)
	case "DropGoStmt":
		f.DropGoStmt()
	case "AddToolchainStmt":
		return f.AddToolchainStmt(o.a)
	case "DropToolchainStmt":
		f.DropToolchainStmt()
	case "AddGodebug":
		return f.AddGodebug(o.a, o.b)
	case "DropGodebug":
		return f.DropGodebug(o.a)
	case "AddRequire":
		return f.AddRequire(o.a, o.b)
	case "AddNewRequire":
		f.AddNewRequire(o.a, o.b, o.flag)
	case "DropRequire":
		return f.DropRequire(o.a)
	case "AddExclude":
		return f.AddExclude(o.a, o.b)
	case "DropExclude":
		return f.DropExclude(o.a, o.b)
	case "AddReplace":
		return f.AddReplace(o.a, o.b, o.c, o.d)
	case "DropReplace":
		return f.DropReplace(o.a, o.b)
	case "AddRetract":
		return f.AddRetract(modfile.VersionInterval{Low: o.a, High: o.b}, o.c)
	case "DropRetract":
		return f.DropRetract(modfile.VersionInterval{Low: o.a, High: o.b})
	case "AddTool":
		return f.AddTool(o.a)
	case "DropTool":
		return f.DropTool(o.a)
	case "SortBlocks":
		f.SortBlocks()
	case "Cleanup":
		f.Cleanup()
	case "SetRequire", "SetRequireSeparateIndirect":
		rs := o.callerReqs
		if rs == nil {
			for _, e := range o.reqs {
				rs = append(rs, &modfile.Require{Mod: module.Version{Path: e.a, Version: e.b}, Indirect: e.indirect})
			}
		}
		if o.name == "SetRequire" {
			f.SetRequire(rs)
		} else {
			f.SetRequireSeparateIndirect(rs)
		}
	default:
		return fmt.Errorf("harness: unknown go.mod op %s", o.name)
	}
	return nil
}

// lists extracts the directive lists of the in-memory structure as model entries (id from the
// end-of-line comment of the line each entry points to), plus a note for every zero-value entry.
func (r *realFile) lists() (m *mModel, zero []string) {
	m = &mModel{work: r.work, scalarTouched: map[string]bool{}, scalarID: map[string]int{}}
	idOf := func(l *modfile.Line) int {
		if l == nil {
			return 0
		}
		for _, c := range l.Suffix {
			if i := strings.Index(c.Token, "S"); i >= 0 {
				if n, err := strconv.Atoi(strings.TrimSpace(c.Token[i+1:])); err == nil {
					return n
				}
			}
		}
		return 0
	}
	if r.work {
		w := r.w
		if w.Go != nil {
			m.goV = w.Go.Version
			m.scalarID["go"] = idOf(w.Go.Syntax)
		}
		if w.Toolchain != nil {
			m.toolchain = w.Toolchain.Name
			m.scalarID["toolchain"] = idOf(w.Toolchain.Syntax)
		}
		for i, g := range w.Godebug {
			if g == nil || g.Key == "" {
				zero = append(zero, fmt.Sprintf("Godebug[%d]", i))
				continue
			}
			m.add(mEntry{kind: "godebug", a: g.Key, b: g.Value, id: idOf(g.Syntax)})
		}
		for i, u := range w.Use {
			if u == nil || u.Path == "" {
				zero = append(zero, fmt.Sprintf("Use[%d]", i))
				continue
			}
			m.add(mEntry{kind: "use", a: u.Path, id: idOf(u.Syntax)})
		}
		for i, x := range w.Replace {
			if x == nil || x.Old.Path == "" {
				zero = append(zero, fmt.Sprintf("Replace[%d]", i))
				continue
			}
			m.add(mEntry{kind: "replace", a: x.Old.Path, b: x.Old.Version, c: x.New.Path, d: x.New.Version, id: idOf(x.Syntax)})
		}
		return m, zero
	}
	f := r.f
	if f.Module != nil {
		m.module = f.Module.Mod.Path
		m.scalarID["module"] = idOf(f.Module.Syntax)
	}
	if f.Go != nil {
		m.goV = f.Go.Version
		m.scalarID["go"] = idOf(f.Go.Syntax)
	}
	if f.Toolchain != nil {
		m.toolchain = f.Toolchain.Name
		m.scalarID["toolchain"] = idOf(f.Toolchain.Syntax)
	}
	for i, g := range f.Godebug {
		if g == nil || g.Key == "" {
			zero = append(zero, fmt.Sprintf("Godebug[%d]", i))
			continue
		}
		m.add(mEntry{kind: "godebug", a: g.Key, b: g.Value, id: idOf(g.Syntax)})
	}
	for i, x := range f.Require {
		if x == nil || x.Mod.Path == "" {
			zero = append(zero, fmt.Sprintf("Require[%d]", i))
			continue
		}
		m.add(mEntry{kind: "require", a: x.Mod.Path, b: x.Mod.Version, indirect: x.Indirect, id: idOf(x.Syntax)})
	}
	for i, x := range f.Exclude {
		if x == nil || x.Mod.Path == "" {
			zero = append(zero, fmt.Sprintf("Exclude[%d]", i))
			continue
		}
		m.add(mEntry{kind: "exclude", a: x.Mod.Path, b: x.Mod.Version, id: idOf(x.Syntax)})
	}
	for i, x := range f.Replace {
		if x == nil || x.Old.Path == "" {
			zero = append(zero, fmt.Sprintf("Replace[%d]", i))
			continue
		}
		m.add(mEntry{kind: "replace", a: x.Old.Path, b: x.Old.Version, c: x.New.Path, d: x.New.Version, id: idOf(x.Syntax)})
	}
	for i, x := range f.Retract {
		if x == nil || (x.Low == "" && x.High == "") {
			zero = append(zero, fmt.Sprintf("Retract[%d]", i))
			continue
		}
		m.add(mEntry{kind: "retract", a: x.Low, b: x.High, c: x.Rationale, id: idOf(x.Syntax)})
	}
	for i, x := range f.Tool {
		if x == nil || x.Path == "" {
			zero = append(zero, fmt.Sprintf("Tool[%d]", i))
			continue
		}
		m.add(mEntry{kind: "tool", a: x.Path, id: idOf(x.Syntax)})
	}
	return m, zero
}

// ---- starting file generator ----

type genLine struct {
	id       int
	kind     string
	tokens   string // directive arguments as written (without the verb)
	lead     int    // number of leading comment lines
	indirect bool
	blank    bool // a blank line before
	spacing  int  // selects how the end-of-line comment is spelled
}

func quoteIfNeeded(s string) string {
	if modfile.MustQuote(s) {
		return strconv.Quote(s)
	}
	return s
}

// genModText draws a well-formed go.mod or go.work text and its model. bare: require lines without
// any comments (needed for the one-uncommented-block clause of C16).
func genModText(src *choice.Src, work, bare bool) (string, *mModel) {
	m := &mModel{work: work, scalarTouched: map[string]bool{}, scalarID: map[string]int{}}
	var b strings.Builder
	id := 0
	next := func() int { id++; return id }
	if src.Bool(1, 2) {
		b.WriteString("// header comment of the file\n// second header line\n\n")
	}
	if !work {
		m.module = "example.com/m"
		n := next()
		m.scalarID["module"] = n
		fmt.Fprintf(&b, "module example.com/m // S%d\n\n", n)
	}
	if src.Bool(3, 4) || work {
		m.goV = modGoVersions[src.Intn(len(modGoVersions))]
		n := next()
		m.scalarID["go"] = n
		fmt.Fprintf(&b, "go %s // S%d\n\n", m.goV, n)
	}
	if src.Bool(1, 3) {
		m.toolchain = modToolchains[src.Intn(len(modToolchains))]
		n := next()
		m.scalarID["toolchain"] = n
		fmt.Fprintf(&b, "toolchain %s // S%d\n\n", m.toolchain, n)
	}
	kinds := []string{"require", "require", "exclude", "replace", "retract", "tool", "godebug"}
	if work {
		kinds = []string{"use", "use", "replace", "godebug"}
	}
	nstmt := src.Range(0, 7)
	if bare {
		nstmt = src.Range(0, 3)
	}
	bareDone := false
	for s := 0; s < nstmt; s++ {
		kind := kinds[src.Intn(len(kinds))]
		if bare && kind == "require" {
			if bareDone {
				continue
			}
			bareDone = true
		}
		block := src.Bool(1, 2)
		nlines := 1
		if block {
			nlines = src.Range(1, 4)
		}
		var lines []genLine
		for i := 0; i < nlines; i++ {
			gl := genLine{id: next(), kind: kind, lead: src.Weighted(3, 2, 1), blank: src.Bool(1, 4), spacing: src.Intn(70)}
			e := mEntry{kind: kind, id: gl.id, lead: gl.lead}
			if bare && kind == "require" {
				e.id, e.lead = 0, 0 // no comments to recognise the line by
			}
			switch kind {
			case "require":
				e.a, e.b = drawModVer(src)
				e.indirect = src.Bool(1, 3)
				gl.indirect = e.indirect
				gl.tokens = e.a + " " + e.b
			case "exclude":
				e.a, e.b = drawModVer(src)
				gl.tokens = e.a + " " + e.b
			case "replace":
				e.a, e.b = drawModVer(src)
				if src.Bool(1, 2) {
					e.b = ""
				}
				if src.Bool(1, 2) {
					e.c = modLocalDirs[src.Intn(len(modLocalDirs))]
				} else {
					e.c, e.d = drawModVer(src)
				}
				gl.tokens = strings.TrimSpace(e.a+" "+e.b) + " => " + strings.TrimSpace(quoteIfNeeded(e.c)+" "+e.d)
			case "retract":
				lo := src.Intn(len(modOwnVersions))
				hi := lo
				if src.Bool(1, 2) {
					hi = lo + src.Intn(len(modOwnVersions)-lo)
				}
				e.a, e.b = modOwnVersions[lo], modOwnVersions[hi]
				if lo == hi && src.Bool(1, 2) {
					gl.tokens = e.a
				} else {
					gl.tokens = "[" + e.a + ", " + e.b + "]"
				}
			case "tool":
				e.a = modTools[src.Intn(len(modTools))]
				gl.tokens = e.a
			case "godebug":
				e.a, e.b = modGodebugKeys[src.Intn(len(modGodebugKeys))], strconv.Itoa(src.Intn(2))
				gl.tokens = e.a + "=" + e.b
			case "use":
				e.a = workUseDirs[src.Intn(len(workUseDirs))]
				gl.tokens = quoteIfNeeded(e.a)
			}
			if kind == "retract" {
				// the rationale of a parsed retraction is the text of its comments
				var rl []string
				for k := 1; k <= gl.lead; k++ {
					rl = append(rl, fmt.Sprintf("L%d.%d", gl.id, k))
				}
				rl = append(rl, fmt.Sprintf("S%d", gl.id))
				e.c = strings.Join(rl, "\n")
			}
			m.add(e)
			lines = append(lines, gl)
		}
		writeLine := func(gl genLine, indent, verb string) {
			noComments := bare && gl.kind == "require"
			if gl.blank && indent != "" {
				b.WriteString("\n")
			}
			if !noComments {
				for k := 1; k <= gl.lead; k++ {
					fmt.Fprintf(&b, "%s// L%d.%d\n", indent, gl.id, k)
				}
			}
			suffix := fmt.Sprintf(" // S%d", gl.id)
			if gl.indirect {
				// the marker is recognised with any spacing after the slashes
				// ... and the text after the marker may itself begin like a marker
				suffix = fmt.Sprintf(" %s S%d", []string{"// indirect;", "// indirect;", "//indirect;", "//  indirect;", "//\tindirect;", "// indirect; indirect;", "// indirect; indirect; indirect;"}[gl.spacing%7], gl.id)
			}
			if noComments {
				suffix = ""
				if gl.indirect {
					suffix = []string{" // indirect", " //indirect", " //  indirect", " // indirect; indirect"}[gl.spacing%4]
				} else if gl.spacing%7 == 6 {
					suffix = []string{" //", " //   ", " //\t"}[gl.spacing/7%3] // an empty end-of-line comment
				}
			}
			fmt.Fprintf(&b, "%s%s%s%s\n", indent, verb, gl.tokens, suffix)
		}
		if block {
			if src.Bool(1, 3) && !(bare && kind == "require") && (kind != "retract" || src.Bool(1, 2)) {
				fmt.Fprintf(&b, "// block comment before %s block\n", kind)
				if kind == "retract" {
					m.looseRationale = true
				}
			}
			fmt.Fprintf(&b, "%s (\n", kind)
			for _, gl := range lines {
				writeLine(gl, "\t", "")
			}
			if src.Bool(1, 5) && !(bare && kind == "require") {
				b.WriteString("\t// comment before the closing parenthesis\n")
			}
			b.WriteString(")\n\n")
		} else {
			writeLine(lines[0], "", kind+" ")
			b.WriteString("\n")
		}
	}
	return b.String(), m
}

// ---- comparison helpers ----

func diffLists(a, b []string) string {
	ca, cb := map[string]int{}, map[string]int{}
	for _, x := range a {
		ca[x]++
	}
	for _, x := range b {
		cb[x]++
	}
	var d []string
	for k, n := range ca {
		if cb[k] < n {
			d = append(d, fmt.Sprintf("-%s(x%d)", k, n-cb[k]))
		}
	}
	for k, n := range cb {
		if ca[k] < n {
			d = append(d, fmt.Sprintf("+%s(x%d)", k, n-ca[k]))
		}
	}
	sort.Strings(d)
	return strings.Join(d, " ")
}

// tokenLess is the documented lexical order of lines by tokens.
func tokenLess(a, b []string) bool {
	for k := 0; k < len(a) && k < len(b); k++ {
		if a[k] != b[k] {
			return a[k] < b[k]
		}
	}
	return len(a) < len(b)
}

// checkBlockOrder verifies that every block of syn is in its documented order.
func checkBlockOrder(syn *modfile.FileSyntax, goV string) string {
	// "from go 1.21": a pre-release such as 1.22rc1 or 1.20rc3 belongs to the language version it is a
	// pre-release of; only for pre-releases of 1.21 itself does the documentation leave the side open
	lang := goV
	if i := strings.IndexAny(goV, "abcdefghijklmnopqrstuvwxyz"); i >= 0 {
		lang = goV[:i]
	}
	goVUnclear := lang != goV && ref.SemverCompare("v"+lang, "v1.21") == 0
	semverExclude := goV != "" && !goVUnclear && ref.SemverCompare("v"+lang, "v1.21") >= 0
	for _, st := range syn.Stmt {
		blk, ok := st.(*modfile.LineBlock)
		if !ok {
			continue
		}
		for i := 0; i+1 < len(blk.Line); i++ {
			x, y := blk.Line[i].Token, blk.Line[i+1].Token
			bad := false
			switch {
			case blk.Token[0] == "retract":
				lo := func(t []string) (string, string) {
					if len(t) == 1 {
						return t[0], t[0]
					}
					if len(t) == 5 {
						return t[1], t[3]
					}
					return "", ""
				}
				xl, xh := lo(x)
				yl, yh := lo(y)
				// descending by low, then by high
				if c := ref.SemverCompare(xl, yl); c < 0 || c == 0 && ref.SemverCompare(xh, yh) < 0 {
					bad = true
				}
			case blk.Token[0] == "exclude" && goVUnclear:
				// a release candidate of 1.21 ("1.21rc1"): the documentation does not say on which side of
				// "from go 1.21" it falls; either order is accepted
				lexOK := !tokenLess(y, x)
				semOK := len(x) == 2 && len(y) == 2 && !(x[0] > y[0] || x[0] == y[0] && ref.SemverCompare(x[1], y[1]) > 0)
				bad = !lexOK && !semOK
			case blk.Token[0] == "exclude" && semverExclude && len(x) == 2 && len(y) == 2:
				if x[0] > y[0] || x[0] == y[0] && ref.SemverCompare(x[1], y[1]) > 0 {
					bad = true
				}
			default:
				if tokenLess(y, x) {
					bad = true
				}
			}
			if bad {
				return fmt.Sprintf("%s block: line %q comes before %q", blk.Token[0], strings.Join(x, " "), strings.Join(y, " "))
			}
		}
	}
	return ""
}

// commentsOf returns the comment tokens before and after (suffix) the line of the entry with the
// given id in a freshly parsed file, and whether such a line exists.
func findLineByID(syn *modfile.FileSyntax, id int) *modfile.Line {
	want := fmt.Sprintf("S%d", id)
	var found *modfile.Line
	visit := func(l *modfile.Line) {
		for _, c := range l.Suffix {
			f := strings.Fields(strings.NewReplacer("//", " ", ";", " ").Replace(c.Token))
			for _, w := range f {
				if w == want {
					found = l
				}
			}
		}
	}
	for _, st := range syn.Stmt {
		switch st := st.(type) {
		case *modfile.Line:
			visit(st)
		case *modfile.LineBlock:
			for _, l := range st.Line {
				visit(l)
			}
		}
	}
	return found
}

func hasLeadComments(l *modfile.Line, blockBefore []modfile.Comment, id, n int) bool {
	have := map[string]bool{}
	for _, c := range l.Before {
		have[strings.TrimSpace(strings.TrimPrefix(c.Token, "//"))] = true
	}
	for _, c := range blockBefore {
		have[strings.TrimSpace(strings.TrimPrefix(c.Token, "//"))] = true
	}
	for k := 1; k <= n; k++ {
		if !have[fmt.Sprintf("L%d.%d", id, k)] {
			return false
		}
	}
	return true
}

var _ = core.NewResult
