package props

import (
	"bytes"
	"crypto/sha256"
	"encoding/base64"
	"encoding/hex"
	"fmt"
	"io"
	"os"
	"path/filepath"
	"sort"
	"strings"
	"sync"

	"golang.org/x/mod/sumdb/dirhash"
	modzip "golang.org/x/mod/zip"

	"verif/sim/choice"
	"verif/sim/core"
)

// C19: the module content hash is the documented formula over names and bytes only.
//
// Seam: Hash1's `open` callback (open error, read error after k bytes,
// readers that hand out one byte at a time), the listing order, and the real
// file system for HashDir/HashZip on archives produced by the zip pipeline.

// refH1 is the documented formula: "h1:" + base64(SHA-256(summary)), the
// summary holding one line per file, sorted by name: hex(SHA-256(content)),
// two spaces, the name, newline.
func refH1(files map[string]string) string {
	names := make([]string, 0, len(files))
	for n := range files {
		names = append(names, n)
	}
	sort.Strings(names)
	var summary bytes.Buffer
	for _, n := range names {
		sum := sha256.Sum256([]byte(files[n]))
		summary.WriteString(hex.EncodeToString(sum[:]))
		summary.WriteString("  ")
		summary.WriteString(n)
		summary.WriteString("\n")
	}
	total := sha256.Sum256(summary.Bytes())
	return "h1:" + base64.StdEncoding.EncodeToString(total[:])
}

var c19Names = []string{
	"a", "b", "a/b", "a b", "a  b", "ab", "abc", "a/b/c.go", "mod@v1.0.0/go.mod", "mod@v1.0.0/x.go", "100%", "a%20b", "50%%", "%s", "%d%v", "%!z(MISSING)", "a%z",
	"e3b0c44298fc1c149afbf4c8996fb92427ae41e4649b934ca495991b7852b855  x", "  lead", "trail  ", "Ünï/cødé", "日本語", "tab\there", "cr\rhere", "back\\slash", "\xff\xfe", "",
	"z", "Z", "0", ".", "..", "a/../b", "//", "x\x00y", "é", "é",
}

// c19Errs are the error values a failing open or read returns: a plain I/O error, and the errors
// that truncated streams produce (archive/zip, flate and HTTP bodies return io.ErrUnexpectedEOF).
var c19Errs = []error{errSimIO, io.ErrUnexpectedEOF, io.ErrClosedPipe, fmt.Errorf("wrapped: %w", io.ErrUnexpectedEOF)}

type c19Opener struct {
	errKind int
	// parallel: the caller keeps names and contents in two parallel slices and finds a file's content
	// by its position in the very list it handed to Hash1
	parallel bool
	pnames   []string
	pdata    []string
	files    map[string]string
	openErr  map[string]bool
	readErr  map[string]int
	chunk1   bool
	// eofWithData: readers return the last bytes together with io.EOF
	eofWithData bool
	// errWithData: a failing read hands over the bytes it still has together with the error, once; the
	// stream then ends (a transient error of the kind a network body or a pipe reports a single time)
	errWithData bool
	opened      []string
	fired       map[string]int
	unclosed    int
	// mu guards the bookkeeping: nothing says that Hash1 reads the files one at a time or on the
	// calling goroutine
	mu sync.Mutex
}

type c19Reader struct {
	o      *c19Opener
	name   string
	data   []byte
	off    int
	failAt int
	failed bool
}

func (r *c19Reader) Read(p []byte) (int, error) {
	if r.failAt >= 0 && r.off >= r.failAt {
		if r.o.errWithData && r.failed {
			return 0, io.EOF
		}
		r.failed = true
		r.o.mu.Lock()
		r.o.fired["read-error"]++
		r.o.mu.Unlock()
		return 0, c19Errs[r.o.errKind%len(c19Errs)]
	}
	if r.off >= len(r.data) {
		return 0, io.EOF
	}
	n := len(p)
	if r.o.chunk1 && n > 1 {
		n = 1
	}
	if n > len(r.data)-r.off {
		n = len(r.data) - r.off
	}
	if r.failAt >= 0 && r.off+n > r.failAt {
		n = r.failAt - r.off
	}
	copy(p, r.data[r.off:r.off+n])
	r.off += n
	if r.o.errWithData && r.failAt >= 0 && r.off >= r.failAt && n > 0 {
		r.failed = true
		r.o.mu.Lock()
		r.o.fired["read-error-with-data"]++
		r.o.mu.Unlock()
		return n, c19Errs[r.o.errKind%len(c19Errs)]
	}
	if r.o.eofWithData && r.off >= len(r.data) && r.failAt < 0 {
		return n, io.EOF // io.Reader allows the last bytes to come together with io.EOF
	}
	return n, nil
}
func (r *c19Reader) Close() error {
	r.o.mu.Lock()
	r.o.unclosed--
	r.o.mu.Unlock()
	return nil
}

func (o *c19Opener) open(name string) (io.ReadCloser, error) {
	o.mu.Lock()
	defer o.mu.Unlock()
	o.opened = append(o.opened, name)
	if o.openErr[name] {
		o.fired["open-error"]++
		return nil, c19Errs[o.errKind%len(c19Errs)]
	}
	data, ok := o.files[name]
	if o.parallel {
		ok = false
		for i, n := range o.pnames {
			if n == name && i < len(o.pdata) {
				data, ok = o.pdata[i], true
				break
			}
		}
	}
	if !ok {
		return nil, fmt.Errorf("open %q: no such file in the simulated set", name)
	}
	fa := -1
	if k, ok := o.readErr[name]; ok {
		fa = k
		if fa > len(data) {
			fa = len(data)
		}
	}
	o.unclosed++
	return &c19Reader{o: o, name: name, data: []byte(data), failAt: fa}, nil
}

func c19Explore(src *choice.Src) *core.Result {
	res := core.NewResult()
	files := map[string]string{}
	var names []string
	for i, n := 0, src.Range(0, 8); i < n; i++ {
		name := c19Names[src.Intn(len(c19Names))]
		if src.Bool(1, 3) {
			name = c19Names[src.Intn(len(c19Names))] + "/" + name
		}
		if src.Bool(1, 25) { // newline somewhere, including at the very start
			pos := src.Intn(len(name) + 1)
			name = name[:pos] + "\n" + name[pos:]
		}
		if _, dup := files[name]; dup {
			continue
		}
		files[name] = fmt.Sprintf("content %d %s", i, strings.Repeat("c", src.Intn(100)))
		if src.Bool(1, 6) {
			files[name] = ""
		}
		names = append(names, name)
	}
	hasNewline := false
	for _, n := range names {
		if strings.Contains(n, "\n") {
			hasNewline = true
		}
	}
	want := refH1(files)
	res.Logf("C19 set of %d files, newline name: %v", len(names), hasNewline)

	// 1. every listing order gives the documented value
	orders := src.Range(2, 4)
	for k := 0; k < orders && res.Violation == nil; k++ {
		perm := src.Perm(len(names))
		list := make([]string, len(names))
		for i, p := range perm {
			list[i] = names[p]
		}
		orig := append([]string(nil), list...)
		op := &c19Opener{files: files, fired: map[string]int{}, chunk1: src.Bool(1, 4), eofWithData: src.Bool(1, 4)}
		if src.Bool(1, 3) {
			// a caller with parallel name/content slices: content is found by position in the list given to Hash1
			op.parallel, op.pnames = true, list
			for _, n := range list {
				op.pdata = append(op.pdata, files[n])
			}
			res.Probes["parallel-slices-caller"]++
		}
		got, err := dirhash.Hash1(list, op.open)
		res.Steps += len(op.opened)
		if fmt.Sprint(list) != fmt.Sprint(orig) {
			res.Probes["caller-list-reordered"]++
		}
		switch {
		case hasNewline:
			if err == nil {
				res.Fail("C19", "newline-names-refused", "a file name containing a newline was accepted", "names %q hashed to %s", names, got)
			}
		case err != nil:
			res.Fail("C19", "hash1-succeeds", "Hash1 failed without any fault", "names %q: %v", names, err)
		case got != want:
			res.Fail("C19", "hash1-is-documented-formula", "Hash1 differs from the documented formula", "names %q in order %q: got %s want %s", names, list, got, want)
		}
		if op.unclosed != 0 {
			res.Probes["reader-left-open"]++ // noted only: the property says nothing about closing
		}
	}
	// 2. a delivered fault means an error and no hash
	if !hasNewline && len(names) > 0 && res.Violation == nil {
		op := &c19Opener{files: files, fired: map[string]int{}, openErr: map[string]bool{}, readErr: map[string]int{}, chunk1: src.Bool(1, 3), errKind: src.Intn(len(c19Errs))}
		op.errWithData = src.Bool(1, 3)
		for i, n := 0, src.Range(1, 2); i < n; i++ {
			name := names[src.Intn(len(names))]
			if src.Bool(1, 2) {
				op.openErr[name] = true
			} else {
				op.readErr[name] = src.Intn(len(files[name]) + 1)
			}
		}
		got, err := dirhash.Hash1(append([]string(nil), names...), op.open)
		res.Steps += len(op.opened)
		for k, v := range op.fired {
			res.Faults[k] += v
		}
		// a failed open or read may be retried; what may not happen is a hash of something else
		if len(op.fired) > 0 && (err == nil && got != want || err != nil && got != "") {
			res.Fail("C19", "fault-surfaces", "Hash1 returned a wrong hash although opening or reading a file failed", "faults %v; result %q, %v; the documented formula gives %s", op.fired, got, err, want)
		}
		if len(op.fired) == 0 && (err != nil || got != want) {
			res.Fail("C19", "hash1-is-documented-formula", "Hash1 differs from the documented formula", "no fault delivered; got %q, %v; want %s", got, err, want)
		}
	}
	// 3. a near-identical but different set hashes differently (summary injectivity)
	if !hasNewline && len(names) > 0 && res.Violation == nil {
		other := map[string]string{}
		for k, v := range files {
			other[k] = v
		}
		victim := names[src.Intn(len(names))]
		var alt string
		switch src.Intn(5) {
		case 0:
			alt = victim + "%"
		case 1:
			alt = strings.Replace(victim, "%%", "%", 1)
		case 2:
			alt = victim + " "
		case 3:
			alt = strings.ToUpper(victim)
		default:
			alt = victim + "x"
		}
		if _, clash := other[alt]; !clash && alt != victim && !strings.Contains(alt, "\n") {
			other[alt] = other[victim]
			delete(other, victim)
			var onames []string
			for n := range other {
				onames = append(onames, n)
			}
			sort.Strings(onames)
			op := &c19Opener{files: other, fired: map[string]int{}}
			got2, err2 := dirhash.Hash1(onames, op.open)
			op1 := &c19Opener{files: files, fired: map[string]int{}}
			got1, err1 := dirhash.Hash1(append([]string(nil), names...), op1.open)
			if err1 == nil && err2 == nil && got1 == got2 {
				res.Fail("C19", "summary-injective", "two different file sets have the same hash", "sets with name %q versus %q (same content) both hash to %s", victim, alt, got1)
			}
			res.Probes["injectivity-pair-checked"]++
		}
	}

	// 4. zip and directory agree, and equal the formula over the model
	if res.Violation == nil && src.Bool(1, 3) {
		c19ZipDir(src, res)
	}
	sort.Strings(names)
	res.Sig = choice.MixString(strings.Join(names, "\x00") + fmt.Sprint(res.Faults))
	res.Trivial = len(names) == 0
	res.Sample = map[string]interface{}{"names": names, "newline_name": hasNewline, "faults": res.Faults, "probes": res.Probes}
	return res
}

func c19ZipDir(src *choice.Src, res *core.Result) {
	mod := zipModules[src.Intn(6)] // the valid ones
	t := genZipTreeStyle(src, 10, 0)
	var buf bytes.Buffer
	if err := modzip.Create(&buf, mod.m, t.list()); err != nil {
		res.Probes["zipdir-skipped-create-failed"]++
		return
	}
	sb, err := newSandbox()
	if err != nil {
		core.SetHarnessError("c19: " + err.Error())
		return
	}
	defer sb.close()
	res.Scrub(sb.root)
	zipFile := filepath.Join(sb.root, "m.zip")
	os.WriteFile(zipFile, buf.Bytes(), 0o644)
	out := filepath.Join(sb.root, "x", "out")
	if err := modzip.Unzip(out, mod.m, zipFile); err != nil {
		res.Probes["zipdir-skipped-unzip-failed"]++
		return
	}
	prefix := mod.m.Path + "@" + mod.m.Version
	_, content, err := archiveEntries(buf.Bytes())
	if err != nil {
		core.SetHarnessError("c19: " + err.Error())
		return
	}
	want := refH1(content)
	hz, errz := dirhash.HashZip(zipFile, dirhash.Hash1)
	// the directory may be named in several equivalent ways
	dirForm := out
	form := src.Intn(5)
	switch form {
	case 1:
		dirForm = out + "/"
	case 2:
		dirForm = filepath.Dir(out) + "//out"
	case 3:
		dirForm = filepath.Dir(out) + "/./out"
	case 4:
		dirForm = out + "/."
	}
	// HashDir hands the list it built to a hash function the caller supplies. In half of the runs that
	// function first hashes a second directory (what another goroutine of the caller would be doing at
	// that moment) and only then consumes its own list.
	hashFn := dirhash.Hash(dirhash.Hash1)
	nestedTrouble := ""
	if src.Bool(1, 2) {
		rel := "n.txt"
		oprefix := "other.example/n@v0.0.1"
		if src.Bool(1, 2) && len(content) > 0 {
			var keys []string
			for k := range content {
				keys = append(keys, k)
			}
			sort.Strings(keys)
			rel = strings.TrimPrefix(keys[src.Intn(len(keys))], prefix+"/")
			oprefix = prefix
		}
		other := filepath.Join(sb.root, "y", "dir")
		os.MkdirAll(filepath.Dir(filepath.Join(other, filepath.FromSlash(rel))), 0o755)
		os.WriteFile(filepath.Join(other, filepath.FromSlash(rel)), []byte("other\n"), 0o644)
		wantOther := refH1(map[string]string{oprefix + "/" + rel: "other\n"})
		hashFn = func(files []string, open func(string) (io.ReadCloser, error)) (string, error) {
			h, err := dirhash.HashDir(other, oprefix, dirhash.Hash1)
			if err != nil || h != wantOther {
				nestedTrouble = fmt.Sprintf("HashDir of the second directory (one file %q under %q) gave %q, %v; want %s", rel, oprefix, h, err, wantOther)
			}
			return dirhash.Hash1(files, open)
		}
		res.Probes["hashdir-inside-hashdir"]++
	}
	var hd string
	var errd error
	func() {
		defer func() {
			if e := recover(); e != nil {
				res.Fail("C19", "no-panic", "HashDir panicked", "dir %q: %v", dirForm, e)
			}
		}()
		hd, errd = dirhash.HashDir(dirForm, prefix, hashFn)
	}()
	if nestedTrouble != "" {
		res.Fail("C19", "hash1-is-documented-formula", "hashing a directory while another HashDir call is in progress gives a wrong result", "%s", nestedTrouble)
		return
	}
	res.Probes["zip-and-dir-hashed"]++
	if res.Violation != nil {
		return
	}
	if errz != nil || errd != nil {
		res.Fail("C19", "zip-dir-hash-succeed", "hashing a created zip or its extracted directory failed", "HashZip: %v; HashDir(%q): %v", errz, dirForm, errd)
		return
	}
	if hz != hd {
		res.Fail("C19", "zip-equals-dir", "hashing a module zip differs from hashing the directory it extracts to", "HashZip %s; HashDir(%q, %q) %s; files %v", hz, dirForm, prefix, hd, describeMap(content))
		return
	}
	if hz != want {
		res.Fail("C19", "hash1-is-documented-formula", "HashZip differs from the documented formula over the archive's names and bytes", "got %s want %s; files %v", hz, want, describeMap(content))
	}
}

func init() {
	core.Register(&core.Prop{
		ID:      "C19",
		Entries: []core.Entry{{Name: "explore", Run: c19Explore}},
		Explore: []string{"explore"},
		Rule: "explore: seeded file sets of 0-8 names from a hostile alphabet (percent signs and format verbs, double spaces, hex-looking prefixes, prefixes of each other, Unicode, newlines at any position), 2-4 listing orders, open/read faults placed on chosen files (also a read error handed over together with the remaining bytes, once, followed by end of stream), one-byte readers, a near-identical second set for injectivity; a third of the runs hash a Create-d zip and its Unzip-ped directory (named in 5 equivalent ways; in half of these a second HashDir of another directory runs inside the caller-supplied hash function, between the listing and its use). " +
			"Distinct = (names, fault kinds); non-trivial = at least one file.",
		Real:        []string{"dirhash.Hash1, HashDir, DirFiles, HashZip", "zip.Create / Unzip (as producers)"},
		Stub:        []string{"the open callback and its readers", "listing order", "sandbox directory on the real file system", "reference formula"},
		Assumptions: []string{"SHA-256 collision resistance"},
	})
	core.ExpectProbes("C19", "zip-and-dir-hashed", "injectivity-pair-checked")
}
