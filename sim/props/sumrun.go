package props

import (
	"errors"
	"fmt"
	"path"
	"strings"

	"golang.org/x/mod/sumdb"

	"verif/sim/choice"
	"verif/sim/core"
	"verif/sim/sched"
	"verif/sim/sw"
)

func init() {
	sumdb.SimHooks.Lock = sched.HookLock
	sumdb.SimHooks.OnceEnter = sched.HookOnceEnter
	sumdb.SimHooks.OnceExit = sched.HookOnceExit
	sumdb.SimHooks.Spawn = sched.HookSpawn
	sumdb.SimHooks.Wait = sched.HookWait
}

type lookupReq struct{ Path, Vers string }

func (l lookupReq) String() string { return l.Path + "@" + l.Vers }

// clientSpec describes one simulated client process.
type clientSpec struct {
	Machine int
	Height  int
	NoSumDB string
	Tasks   [][]lookupReq
	Uni     int
	Size    int64
}

type outcome struct {
	Client, Task, Seq int
	Req               lookupReq
	Lines             []string
	Err               error
	Tainted           bool // the client had consumed a non-benign fault when the lookup returned
	Step              int
}

// sumRun is one simulated sumdb run.
type sumRun struct {
	res      *core.Result
	s        *sched.Sched
	w        *sw.World
	prop     string
	clients  []*sw.ClientInfo
	specs    []clientSpec
	objs     []*sumdb.Client
	outcomes [][]outcome // per task slot, appended by that task only; read after Close
	slotOf   map[string]int
	// noOnlineSound disables the per-lookup soundness oracle (C14 checks exact lines at the end instead,
	// because its ground truth, the real server's log, is only known after the run).
	noOnlineSound bool
	// afterLookup, if set, runs inside the world lock right after each Lookup returns.
	afterLookup func(ci *sw.ClientInfo, q lookupReq, lines []string, err error)
}

func newSumRun(prop string, src *choice.Src, res *core.Result) *sumRun {
	r := &sumRun{res: res, prop: prop, slotOf: map[string]int{}}
	r.s = sched.New(src)
	r.w = sw.NewWorld(res)
	r.w.StepFn = r.s.Steps
	return r
}

// startClient creates the client process and its lookup tasks. remaining
// selects, per task slot, the index of the first lookup still to do (nil: all).
func (r *sumRun) startClient(spec clientSpec, ci *sw.ClientInfo, tag string) {
	c := sumdb.NewClient(r.w.OpsFor(ci))
	c.SetTileHeight(spec.Height)
	if spec.NoSumDB != "" {
		c.SetGONOSUMDB(spec.NoSumDB)
	}
	r.objs = append(r.objs, c)
	for ti, reqs := range spec.Tasks {
		ti, reqs := ti, reqs
		slotName := fmt.Sprintf("c%d.g%d%s", ci.ID, ti, tag)
		slot := len(r.outcomes)
		r.outcomes = append(r.outcomes, nil)
		r.slotOf[slotName] = slot
		r.s.Go(slotName, ci.Group, func() {
			for qi, q := range reqs {
				sched.Yield("Lookup " + q.String())
				r.w.Mu.Lock()
				if ci.LookupStart == nil {
					ci.LookupStart = map[int]int{}
				}
				ci.LookupStart[ti] = r.w.StepFn()
				ci.CurrentTask = ti
				r.w.Mu.Unlock()
				lines, err := c.Lookup(q.Path, q.Vers)
				r.w.Mu.Lock()
				ci.CurrentTask = ti
				o := outcome{Client: ci.ID, Task: ti, Seq: qi, Req: q, Lines: lines, Err: err, Tainted: ci.Tainted, Step: r.w.StepFn()}
				if err != nil {
					r.res.Logf("c%d.g%d Lookup %s -> error: %s", ci.ID, ti, q, firstLine(err.Error()))
				} else {
					r.res.Logf("c%d.g%d Lookup %s -> %d lines", ci.ID, ti, q, len(lines))
				}
				if !r.noOnlineSound {
					r.w.CheckLookupResult(r.prop, ci, q.Path, q.Vers, lines, err)
				}
				if r.afterLookup != nil {
					r.afterLookup(ci, q, lines, err)
				}
				r.w.Mu.Unlock()
				r.outcomes[slot] = append(r.outcomes[slot], o)
			}
		})
	}
}

func firstLine(s string) string {
	if i := strings.Index(s, "\n"); i >= 0 {
		return s[:i] + " ..."
	}
	if len(s) > 200 {
		return s[:200] + "..."
	}
	return s
}

// finish runs the scheduler to completion and reports scheduler-level findings.
func (r *sumRun) finish(honest bool) {
	r.s.Run()
	r.s.Close()
	res := r.res
	res.Steps = r.s.Steps()
	res.Digest = choice.Mix(res.Digest, r.s.Digest)
	if r.s.Deadlock {
		res.Fail(r.prop, "no-deadlock", "deadlock", "all unfinished tasks are blocked: %s", r.s.BlockedNote)
	}
	if r.s.OverBudget {
		if honest {
			res.Fail(r.prop, "bounded-liveness", "step budget exhausted in a fault-free run", "run did not finish within %d scheduler steps", r.s.MaxSteps)
		} else {
			res.Probes["step-budget-exhausted-under-faults"]++
		}
	}
	for _, p := range r.s.Panics {
		res.Fail(r.prop, "no-panic", "a lookup goroutine panicked", "%s", firstLines(p, 12))
	}
	res.Probes["context-switches"] += r.s.Switches
	if r.s.PCT > 0 {
		res.Probes["priority-scheduled-run"]++
	}
}

func firstLines(s string, n int) string {
	l := strings.Split(s, "\n")
	if len(l) > n {
		l = l[:n]
	}
	return strings.Join(l, "\n")
}

// matchPrefixPatternsRef is the documented GONOSUMDB rule: a comma-separated
// list of glob patterns (path.Match syntax); a pattern matches a target if
// it matches a leading sequence of the target's path elements with the same
// number of elements as the pattern.
func matchPrefixPatternsRef(globs, target string) bool {
	for _, glob := range strings.Split(globs, ",") {
		if glob == "" {
			continue
		}
		n := strings.Count(glob, "/") + 1
		elems := strings.Split(target, "/")
		if len(elems) < n {
			continue
		}
		prefix := strings.Join(elems[:n], "/")
		if ok, _ := path.Match(glob, prefix); ok {
			return true
		}
	}
	return false
}

// traceSteps renders the schedule for replay files.
func (r *sumRun) scheduleSample(max int) []string {
	var out []string
	for i, st := range r.s.Trace {
		if i >= max {
			out = append(out, "...")
			break
		}
		out = append(out, fmt.Sprintf("%s @ %s", st.Name, st.Label))
	}
	return out
}

var errNone = errors.New("none")
