package choice

import "time"

// Shrink minimises a failing tape. test re-executes the run from a tape and
// reports whether the same violation still occurs, together with the tape the
// run actually consumed (its canonical form). The result is a tape for which
// test returned true (the input tape is assumed failing).
func Shrink(tape []uint64, maxExec int, maxTime time.Duration, test func([]uint64) (bool, []uint64)) (best []uint64, execs int) {
	best = trimmed(append([]uint64(nil), tape...))
	deadline := time.Now().Add(maxTime) // wall clock bounds effort only; it never influences a run
	out := func() bool { return execs >= maxExec || time.Now().After(deadline) }
	try := func(c []uint64) bool {
		if out() {
			return false
		}
		execs++
		ok, used := test(c)
		if !ok {
			return false
		}
		switch {
		case used != nil && less(used, best):
			best = trimmed(append([]uint64(nil), used...))
		case less(c, best):
			best = trimmed(append([]uint64(nil), c...))
		default:
			return false
		}
		return true
	}
	for round := 0; round < 16 && !out(); round++ {
		before := append([]uint64(nil), best...)

		// 1. failing prefixes (draws beyond the end read as 0)
		for again := true; again && len(best) > 0; {
			again = false
			for _, num := range []int{0, 4, 6, 7} {
				n := len(best) * num / 8
				if n < len(best) && try(best[:n:n]) {
					again = true
					break
				}
			}
		}

		// 2. delete spans, large to small, from the end
		for size := len(best) / 2; size >= 1; size /= 2 {
			for i := len(best) - size; i >= 0; i -= size {
				if i+size > len(best) {
					continue
				}
				c := append(append([]uint64(nil), best[:i]...), best[i+size:]...)
				try(c)
			}
		}

		// 3. zero spans
		for size := 8; size >= 1; size /= 2 {
			for i := 0; i+size <= len(best); i += size {
				nz := false
				for _, v := range best[i : i+size] {
					nz = nz || v != 0
				}
				if !nz {
					continue
				}
				c := append([]uint64(nil), best...)
				for j := i; j < i+size; j++ {
					c[j] = 0
				}
				try(c)
			}
		}

		// 4. lower single values: 0, 1, then a short bisection
		for i := 0; i < len(best); i++ {
			for steps := 0; steps < 8 && i < len(best) && best[i] > 0; steps++ {
				v := best[i]
				var cand uint64
				switch steps {
				case 0:
					cand = 0
				case 1:
					cand = 1
				default:
					cand = v / 2
				}
				if cand >= v {
					break
				}
				c := append([]uint64(nil), best...)
				c[i] = cand
				if !try(c) && steps >= 2 {
					// try v-1 once, then give up on this slot
					c[i] = v - 1
					try(c)
					break
				}
			}
		}
		if equal(before, best) {
			break
		}
	}
	return best, execs
}

// less orders tapes: shorter first, then lexicographically smaller.
func less(a, b []uint64) bool {
	ta, tb := trimmed(a), trimmed(b)
	if len(ta) != len(tb) {
		return len(ta) < len(tb)
	}
	for i := range ta {
		if ta[i] != tb[i] {
			return ta[i] < tb[i]
		}
	}
	return false
}

func trimmed(a []uint64) []uint64 {
	for len(a) > 0 && a[len(a)-1] == 0 {
		a = a[:len(a)-1]
	}
	return a
}

func equal(a, b []uint64) bool {
	if len(a) != len(b) {
		return false
	}
	for i := range a {
		if a[i] != b[i] {
			return false
		}
	}
	return true
}
