// Package choice is the single source of every decision a simulated run
// takes: scenario shape, workload, fault plan and each scheduling step.
//
// A Src either generates values from a seeded PRNG while recording them
// ("explore"), or replays a recorded tape ("replay"). A run is a pure
// function of its tape, which is what makes a violation replayable and
// shrinkable: the shrinker edits the tape (delete spans, zero values, lower
// values) and re-executes. Generators are written so that 0 is the simplest
// choice (stop, no fault, lowest task id, smallest size).
package choice

import (
	"encoding/binary"
	"hash/fnv"
)

// splitmix64: small, fast, well distributed; its whole state is one word.
type splitmix struct{ s uint64 }

func (r *splitmix) next() uint64 {
	r.s += 0x9e3779b97f4a7c15
	z := r.s
	z = (z ^ (z >> 30)) * 0xbf58476d1ce4e5b9
	z = (z ^ (z >> 27)) * 0x94d049bb133111eb
	return z ^ (z >> 31)
}

// Mix derives a sub-seed from a seed and labels.
func Mix(seed uint64, parts ...uint64) uint64 {
	r := splitmix{s: seed ^ 0x5851f42d4c957f2d}
	x := r.next()
	for _, p := range parts {
		r.s ^= p * 0x9e3779b97f4a7c15
		x ^= r.next()
	}
	return x
}

// MixString hashes a label to a number usable with Mix.
func MixString(s string) uint64 {
	h := fnv.New64a()
	h.Write([]byte(s))
	return h.Sum64()
}

// Src is a recorded/replayed stream of bounded choices.
type Src struct {
	rng    splitmix
	replay bool
	tape   []uint64 // replay input
	pos    int
	rec    []uint64 // values actually used in this run
	// Overrun counts draws beyond the end of a replay tape (they yield 0).
	Overrun int
}

// New returns an exploring source.
func New(seed uint64) *Src { return &Src{rng: splitmix{s: seed}} }

// Replay returns a source that replays tape; draws beyond its end yield 0.
func Replay(tape []uint64) *Src { return &Src{replay: true, tape: tape} }

// Tape returns the values used so far (valid as a replay tape).
func (s *Src) Tape() []uint64 { return append([]uint64(nil), s.rec...) }

// Draws returns the number of draws so far.
func (s *Src) Draws() int { return len(s.rec) }

// Uint64n returns a value in [0, n). n == 0 yields 0 without consuming.
func (s *Src) Uint64n(n uint64) uint64 {
	if n <= 1 {
		// Still consume a slot so that tapes keep their alignment when a
		// bound collapses to 1 during shrinking.
		if s.replay {
			if s.pos < len(s.tape) {
				s.pos++
			} else {
				s.Overrun++
			}
		} else {
			s.rng.next()
		}
		s.rec = append(s.rec, 0)
		return 0
	}
	var v uint64
	if s.replay {
		if s.pos < len(s.tape) {
			v = s.tape[s.pos] % n
			s.pos++
		} else {
			s.Overrun++
		}
	} else {
		v = s.rng.next() % n
	}
	s.rec = append(s.rec, v)
	return v
}

// Intn returns a value in [0, n).
func (s *Src) Intn(n int) int {
	if n <= 0 {
		return int(s.Uint64n(0))
	}
	return int(s.Uint64n(uint64(n)))
}

// Range returns a value in [lo, hi].
func (s *Src) Range(lo, hi int) int {
	if hi < lo {
		hi = lo
	}
	return lo + s.Intn(hi-lo+1)
}

// Bool returns true with probability num/den; false is the simple choice.
func (s *Src) Bool(num, den int) bool {
	if num <= 0 {
		s.Uint64n(0)
		return false
	}
	// value 0 must map to false so that shrinking removes events:
	// true iff v >= den-num.
	v := s.Intn(den)
	return v >= den-num
}

// Pick returns an index in [0, n) (alias of Intn, reads better for enums).
func (s *Src) Pick(n int) int { return s.Intn(n) }

// Weighted picks an index with the given integer weights; index 0 should be
// the simplest alternative.
func (s *Src) Weighted(w ...int) int {
	tot := 0
	for _, x := range w {
		tot += x
	}
	v := s.Intn(tot)
	for i, x := range w {
		if v < x {
			return i
		}
		v -= x
	}
	return len(w) - 1
}

// Bytes returns n bytes (each its own draw, so they shrink independently).
func (s *Src) Bytes(n int) []byte {
	b := make([]byte, n)
	for i := range b {
		b[i] = byte(s.Uint64n(256))
	}
	return b
}

// Raw returns an unbounded 64-bit value (used for positions that are later
// reduced modulo a length only known at the point of use).
func (s *Src) Raw() uint64 { return s.Uint64n(1 << 62) }

// Perm returns a permutation of [0,n); the all-zero tape gives identity.
func (s *Src) Perm(n int) []int {
	p := make([]int, n)
	for i := range p {
		p[i] = i
	}
	for i := 0; i < n-1; i++ {
		j := i + s.Intn(n-i)
		p[i], p[j] = p[j], p[i]
	}
	return p
}

// HashTape returns a digest of a tape (for naming replay files).
func HashTape(t []uint64) uint64 {
	h := fnv.New64a()
	var b [8]byte
	for _, v := range t {
		binary.LittleEndian.PutUint64(b[:], v)
		h.Write(b[:])
	}
	return h.Sum64()
}
