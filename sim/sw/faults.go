package sw

import (
	"fmt"
	"os"
	"strconv"
	"strings"

	"verif/sim/choice"
	"verif/sim/ref"
)

// NetFaultKinds lists the network fault kinds (dishonest or failing network).
var NetFaultKinds = []string{
	"net-error", "bitflip", "truncate", "extend", "swap", "tile-swap-hashes", "tile-dup-hash", "stale",
	"forge-record", "forge-record-other-id", "forge-record+leaf", "forge-chain-wrongkey", "forge-chain-unsigned", "unsigned-head",
	"head-text-tamper", "craft-append", "equivocate", "zero",
}

// DiskAssistedNetKinds are network faults whose author also controls the machine's disk (kept apart from
// NetFaultKinds so that recorded tapes keep their meaning).
var DiskAssistedNetKinds = []string{"forge-record+cached-leaf", "negative-record-id", "noncanonical-record-id"}

// BenignNetKinds are legal behaviours of an honest network/server.
var BenignNetKinds = []string{"extra-sig", "partial-404", "extra-head-lines"}

func pseudo(seed uint64, n int) []byte {
	b := make([]byte, n)
	for i := range b {
		b[i] = byte(choice.Mix(seed, uint64(i)))
	}
	return b
}

// ForgedRecordText returns a well-formed record for the same module with different hashes.
func ForgedRecordText(m ModVer, salt uint64) string { return RecordText(m, 0xE71100+salt) }

// applyNetFault transforms the honest response (data, err) of path for client c.
func (w *World) applyNetFault(c *ClientInfo, f *Fault, path string, data []byte, err error) ([]byte, error) {
	isLookup := strings.HasPrefix(path, "/lookup/")
	tile, isTile := ParseTilePathRef(strings.TrimPrefix(path, "/"))
	switch f.Kind {
	case "net-error":
		w.fireBenignErr(c, f, path)
		return nil, errSim
	case "extra-sig": // benign: an additional signature by a key the client does not know
		if err == nil && isLookup {
			if _, text, rest, ok := ref.SplitRecordMsg(string(data)); ok && text != "" {
				if pn, ok := ref.ParseNote([]byte(rest)); ok {
					w.fireBenign(c, f, path, "unknown-key signature line appended")
					return append(append([]byte(nil), data...), []byte(AlienKey.SigLine(pn.Text))...), nil
				}
			}
		}
		return data, err
	case "extra-head-lines": // benign: tree head text with extra lines after the hash (forward compatibility), properly signed
		if err == nil && isLookup {
			if id, text, rest, ok := ref.SplitRecordMsg(string(data)); ok {
				if pn, ok := ref.ParseNote([]byte(rest)); ok {
					w.fireBenign(c, f, path, "signed head with extra text lines")
					nt := pn.Text + "future extension line\n"
					return append([]byte(ref.FormatRecordMsg(id, text)), ref.SignNote(nt, Key)...), nil
				}
			}
		}
		return data, err
	case "partial-404": // benign if the full tile exists: the server dropped a superseded partial tile
		if err == nil && isTile && tile.W != 1<<uint(tile.H) {
			full := tile
			full.W = 1 << uint(tile.H)
			if TileInTree(full, c.Uni.N()) {
				w.fireBenign(c, f, path, "partial tile deleted; full tile available")
			} else {
				w.fireBenignErr(c, f, path) // nothing to fall back to: the lookup may fail
			}
			return nil, &HTTPError{Code: 404, Body: "not found"}
		}
		return data, err
	}
	if err != nil && !(f.Kind == "swap" && isLookup) {
		return data, err // nothing to corrupt (a dishonest network can still answer a lookup the log has no record for)
	}
	out := append([]byte(nil), data...)
	what := ""
	switch f.Kind {
	case "bitflip":
		if len(out) == 0 {
			return data, err
		}
		pos := f.A % uint64(len(out)*8)
		out[pos/8] ^= 1 << (pos % 8)
		what = fmt.Sprintf("bit %d", pos)
	case "zero":
		for i := range out {
			out[i] = 0
		}
	case "truncate":
		if len(out) == 0 {
			return data, err
		}
		out = out[:f.A%uint64(len(out))]
		what = fmt.Sprintf("to %d bytes", len(out))
	case "extend":
		n := 1 + int(f.A%100)
		if isTile && f.A%2 == 0 {
			n = 32 * (1 + int(f.A/2%3))
		}
		out = append(out, pseudo(f.B, n)...)
		what = fmt.Sprintf("%d bytes appended", n)
	case "swap":
		if isLookup {
			// honest answer for a different record of the same universe
			if c.Size == 0 {
				return data, err
			}
			id := int64(f.A % uint64(c.Size))
			out = c.Uni.LookupResponse(id, c.Size)
			what = fmt.Sprintf("answer for record %d", id)
		} else if isTile {
			alt := tile
			alt.N ^= 1
			if !TileInTree(alt, c.Uni.N()) {
				alt.N = tile.N
				alt.L = tile.L + 1
				if !TileInTree(alt, c.Uni.N()) {
					out = pseudo(f.B, len(out))
					what = "random tile"
					break
				}
			}
			out = c.Uni.TileData(alt)
			what = "data of " + TilePath(alt)
		}
	case "tile-swap-hashes", "tile-dup-hash":
		wd := len(out) / 32
		if !isTile || wd < 2 {
			return data, err
		}
		a, b := int(f.A%uint64(wd)), int(f.B%uint64(wd))
		if f.Kind == "tile-swap-hashes" {
			var tmp [32]byte
			copy(tmp[:], out[a*32:])
			copy(out[a*32:a*32+32], out[b*32:b*32+32])
			copy(out[b*32:b*32+32], tmp[:])
		} else {
			copy(out[b*32:b*32+32], out[a*32:a*32+32])
		}
		what = fmt.Sprintf("hashes %d,%d", a, b)
	case "stale":
		old := w.StaleLookups[path]
		if !isLookup || len(old) < 2 {
			// no older answer recorded for this path: serve an answer with an older head instead
			if isLookup {
				if id, _, _, ok := ref.SplitRecordMsg(string(data)); ok && c.Size > 1 {
					n := 1 + int64(f.A%uint64(c.Size-1))
					out = append([]byte(ref.FormatRecordMsg(id, c.Uni.Records[id])), c.Uni.Signed(n)...)
					what = fmt.Sprintf("record %d with old head %d", id, n)
					if n <= id {
						// a splice no honest server produces: a true record with a true head that does not cover it
						w.Res.Faults["stale-splice"]++
					}
					break
				}
			}
			return data, err
		}
		out = append([]byte(nil), old[int(f.A%uint64(len(old)-1))]...)
		what = "replay of an earlier answer"
	case "forge-record", "forge-record-other-id", "forge-record+leaf", "forge-record+cached-leaf", "negative-record-id", "noncanonical-record-id", "forge-chain-wrongkey", "forge-chain-unsigned", "unsigned-head", "head-text-tamper", "craft-append":
		if !isLookup {
			return data, err
		}
		id, text, rest, ok := ref.SplitRecordMsg(string(data))
		if !ok {
			return data, err
		}
		m := c.Uni.Mods[id]
		forged := ForgedRecordText(m, f.A%4)
		switch f.Kind {
		case "forge-record":
			out = append([]byte(ref.FormatRecordMsg(id, forged)), rest...)
		case "forge-record-other-id":
			// the forged record claims the number of another record (one the client may have validated
			// earlier), under the genuine signed head
			oid := int64(f.A / 4 % uint64(c.Size))
			// preferably the number of a record this client has already been given (and so may have
			// validated): what a memo of validated record numbers would be fooled by
			var seenIDs []int64
			for _, k := range SortedKeys(c.Delivered) {
				if did, _, _, ok := ref.SplitRecordMsg(string(c.Delivered[k])); ok && did != id && did < c.Size {
					seenIDs = append(seenIDs, did)
				}
			}
			if len(seenIDs) > 0 && f.B%4 != 0 {
				oid = seenIDs[int(f.B/4%uint64(len(seenIDs)))]
			}
			out = append([]byte(ref.FormatRecordMsg(oid, forged)), rest...)
		case "forge-record+leaf":
			out = append([]byte(ref.FormatRecordMsg(id, forged)), rest...)
			if c.ForgedLeaf == nil {
				c.ForgedLeaf = map[int64]ref.Hash{}
			}
			c.ForgedLeaf[id] = ref.LeafHash([]byte(forged))
		case "negative-record-id":
			// the genuine record and head, but the record number is negative (every non-positive number
			// maps to the position of record 0)
			out = append([]byte(ref.FormatRecordMsg(-1-int64(f.A%9), text)), rest...)
		case "noncanonical-record-id":
			// the genuine answer with the record number respelled: a sign, leading zeros
			idText := strconv.FormatInt(id, 10)
			respelled := []string{"+" + idText, "0" + idText, "000000" + idText, "-0"}[f.A%4]
			if respelled == "-0" && id != 0 {
				respelled = "00" + idText
			}
			out = append([]byte(respelled+"\n"+text+"\n"), rest...)
		case "forge-record+cached-leaf":
			// the attacker also controls the disk: the leaf tile that holds the record is planted in the
			// machine's cache with the forged record's hash in place of the true one (every other hash in
			// it is true), at the width this client will ask for and, if the log covers it, at full width
			out = append([]byte(ref.FormatRecordMsg(id, forged)), rest...)
			fh := ref.LeafHash([]byte(forged))
			n := id >> uint(c.Height)
			for _, total := range []int64{c.Size, c.Uni.N()} {
				wd := total - n<<uint(c.Height)
				if wd > 1<<uint(c.Height) {
					wd = 1 << uint(c.Height)
				}
				if wd <= id-n<<uint(c.Height) {
					continue
				}
				tc := TileCoord{H: c.Height, L: 0, N: n, W: int(wd)}
				td := append([]byte(nil), c.Uni.TileData(tc)...)
				copy(td[(id-n<<uint(c.Height))*32:], fh[:])
				file := ServerName + "/" + TilePath(tc)
				c.Machine.Cache[c.Machine.cacheKey(file)] = td
				w.Res.Logf("c%d FAULT forged leaf tile planted in the cache as %s (leaf %d)", c.ID, file, id)
			}
			w.Res.Faults["cache-forged-leaf-tile-planted"]++
		case "forge-chain-wrongkey", "forge-chain-unsigned":
			// a completely self-consistent forged log (record, all tiles, head) that only lacks the log's signature
			fu := c.Uni.Fork("forged", c.Size)
			fu.Records[id] = forged
			fu.Tree = ref.NewTree()
			for _, r := range fu.Records {
				fu.Tree.Append([]byte(r))
			}
			c.ForgedUni = fu
			head := fu.HeadText(c.Size)
			var note []byte
			if f.Kind == "forge-chain-wrongkey" {
				note = ref.SignNote(head, OtherKey)
			} else {
				note = []byte(head + "\n")
			}
			out = append([]byte(ref.FormatRecordMsg(id, forged)), note...)
		case "unsigned-head":
			pn, _ := ref.ParseNote([]byte(rest))
			switch f.A % 3 {
			case 0: // text only
				out = append([]byte(ref.FormatRecordMsg(id, text)), []byte(pn.Text+"\n")...)
			case 1: // right name and hash, garbage signature
				out = append([]byte(ref.FormatRecordMsg(id, text)), []byte(pn.Text+"\n"+ref.RawSigLine(Key.Name, Key.Hash, pseudo(f.B, 64)))...)
			default: // signed by another key under the same name
				out = append([]byte(ref.FormatRecordMsg(id, text)), ref.SignNote(pn.Text, OtherKey)...)
			}
		case "head-text-tamper":
			// genuine signature lines kept, tree head text changed (size bumped)
			pn, _ := ref.ParseNote([]byte(rest))
			n, h, _ := ref.ParseTreeText(pn.Text)
			nt := ref.FormatTreeText(n+1+int64(f.A%3), h)
			sigs := rest[len(pn.Text)+1:]
			out = append([]byte(ref.FormatRecordMsg(id, text)), []byte(nt+"\n"+sigs)...)
		case "craft-append":
			// a genuine record of ANOTHER module, then the current head's text and, after a blank line,
			// a forged go.sum line for the requested module where signature lines should be
			other := (id + 1 + int64(f.A%7)) % c.Size
			pn, _ := ref.ParseNote([]byte(rest))
			line := strings.SplitN(forged, "\n", 2)[0] + "\n"
			switch f.B % 3 {
			case 0:
				out = []byte(ref.FormatRecordMsg(other, c.Uni.Records[other]) + pn.Text + "\n" + line)
			case 1:
				out = []byte(ref.FormatRecordMsg(other, c.Uni.Records[other]) + rest + line)
			default:
				out = []byte(ref.FormatRecordMsg(other, c.Uni.Records[other]) + pn.Text + line + "\n" + rest[len(pn.Text)+1:])
			}
		}
		what = fmt.Sprintf("record %d", id)
	case "equivocate":
		alt := w.otherUniverse(c.Uni)
		if alt == nil || !isLookup {
			return data, err
		}
		// the other log answers the same lookup, with one of its own heads
		key := strings.TrimPrefix(path, "/lookup/")
		id, ok := alt.lookupEscaped(key)
		if !ok {
			return data, err
		}
		n := id + 1 + int64(f.A%uint64(alt.N()-id))
		out = alt.LookupResponse(id, n)
		what = fmt.Sprintf("answer of log %s: record %d head %d", alt.Name, id, n)
	default:
		return data, err
	}
	if string(out) == string(data) {
		return data, err // the corruption was the identity: nothing delivered
	}
	w.fire(c, f, path, what)
	return out, nil
}

func (w *World) otherUniverse(u *Universe) *Universe {
	for _, o := range w.Universes {
		if o != u {
			return o
		}
	}
	return nil
}

// lookupEscaped finds the record for an escaped "path@version" lookup key by
// comparing against the escaped form of each module (reference escaping: an
// upper-case letter X is written !x).
func (u *Universe) lookupEscaped(key string) (int64, bool) {
	for i, m := range u.Mods {
		if EscapeRef(m.Path)+"@"+EscapeRef(m.Vers) == key {
			return int64(i), true
		}
	}
	return 0, false
}

// EscapeRef is the documented case-encoding: upper-case ASCII letter -> '!' + lower case.
func EscapeRef(s string) string {
	var b strings.Builder
	for _, r := range s {
		if r >= 'A' && r <= 'Z' {
			b.WriteByte('!')
			b.WriteRune(r + 'a' - 'A')
		} else {
			b.WriteRune(r)
		}
	}
	return b.String()
}

// patchTile applies per-client forged leaves / forged universe to an honest tile response.
func (w *World) patchTile(c *ClientInfo, path string, data []byte) []byte {
	t, ok := ParseTilePathRef(strings.TrimPrefix(path, "/"))
	if !ok {
		return data
	}
	if c.ForgedUni != nil && TileInTree(t, c.ForgedUni.N()) {
		fd := c.ForgedUni.TileData(t)
		if string(fd) != string(data) {
			w.Res.Faults["forged-chain-tile"]++
			c.Tainted = true
			c.TaintedKeys[path] = true
			w.Res.Logf("c%d FAULT forged-chain-tile on %s", c.ID, path)
		}
		return fd
	}
	if t.L == 0 && len(c.ForgedLeaf) > 0 {
		out := append([]byte(nil), data...)
		for id, h := range c.ForgedLeaf {
			off := id - t.N<<uint(t.H)
			if off >= 0 && off < int64(t.W) && int(off+1)*32 <= len(out) {
				copy(out[off*32:], h[:])
				w.Res.Faults["forged-leaf-tile"]++
				c.Tainted = true
				c.TaintedKeys[path] = true
				w.Res.Logf("c%d FAULT forged-leaf-tile on %s (leaf %d)", c.ID, path, id)
			}
		}
		return out
	}
	return data
}

// applyDiskFault corrupts a stored cache entry as it is read.
func (w *World) applyDiskFault(c *ClientInfo, f *Fault, file string, data []byte) []byte {
	out := append([]byte(nil), data...)
	what := ""
	switch f.Kind {
	case "cache-bitflip":
		if len(out) == 0 {
			return data
		}
		pos := f.A % uint64(len(out)*8)
		out[pos/8] ^= 1 << (pos % 8)
		what = fmt.Sprintf("bit %d", pos)
	case "cache-truncate":
		if len(out) == 0 {
			return data
		}
		out = out[:f.A%uint64(len(out))]
		what = fmt.Sprintf("to %d", len(out))
	case "cache-garbage":
		out = pseudo(f.B, 1+int(f.A%200))
		what = fmt.Sprintf("%d random bytes", len(out))
	case "cache-swap":
		// the content of another cache file of the same kind (another tile, another lookup answer)
		isLookup := strings.Contains(file, "/lookup/")
		var others []string
		for _, k := range SortedKeys(c.Machine.Cache) {
			if k != c.Machine.cacheKey(file) && strings.Contains(k, "/lookup/") == isLookup {
				others = append(others, k)
			}
		}
		if len(others) == 0 {
			return data
		}
		pick := others[int(f.A%uint64(len(others)))]
		out = append([]byte(nil), c.Machine.Cache[pick]...)
		what = "content of " + pick
	case "cache-cross":
		alt := w.otherUniverse(c.Uni)
		if alt == nil {
			return data
		}
		rel := strings.TrimPrefix(file, ServerName+"/")
		if t, ok := ParseTilePathRef(rel); ok && TileInTree(t, alt.N()) {
			out = alt.TileData(t)
			what = "tile of log " + alt.Name
		} else if strings.HasPrefix(rel, "lookup/") {
			if id, ok := alt.lookupEscaped(strings.TrimPrefix(rel, "lookup/")); ok {
				out = alt.LookupResponse(id, alt.N())
				what = "lookup answer of log " + alt.Name
			}
		}
	}
	if string(out) == string(data) {
		return data
	}
	w.fire(c, f, file, what)
	return out
}

var _ = os.ErrNotExist
