// Package sw is the simulated world around sumdb.Client: log universes, the
// servers, the network, the per-machine cache and configuration register,
// the fault plan, and the reference validators the oracles use.
package sw

import (
	"crypto/sha256"
	"encoding/base64"
	"fmt"
	"strings"

	"verif/sim/ref"
)

// ServerName is the name of the simulated checksum database.
const ServerName = "sim.example/sumdb"

// Key is the log's signing key; OtherKey is an unrelated key.
var (
	Key      = ref.NewKey(ServerName, 1)
	OtherKey = ref.NewKey(ServerName, 2) // same name, different key material
	AlienKey = ref.NewKey("other.example/log", 3)
)

// ModVer is a module version.
type ModVer struct{ Path, Vers string }

func (m ModVer) Key() string { return m.Path + "@" + m.Vers }

var poolPaths = []string{
	"example.com/a", "example.com/b", "example.com/UPPER/Case", "golang.org/x/text", "rsc.io/quote/v3",
	"gopkg.in/yaml.v2", "example.com/Mixed/CASE/v2", "private.example/secret/lib", "example.com/a/sub", "github.com/Azure/sdk",
	"corp.internal/tools/x", "example.com/ab",
}
var poolVers = []string{"v1.0.0", "v1.2.3", "v0.0.0-20190101000000-abcdefabcdef", "v1.0.0-RC1", "v1.5.2"}

// Pool returns the i-th module of the fixed pool (paths x versions; version
// adjusted to the path's major suffix).
func Pool(i int) ModVer {
	p := poolPaths[i%len(poolPaths)]
	v := poolVers[(i/len(poolPaths))%len(poolVers)]
	switch {
	case strings.HasSuffix(p, "/v3"):
		v = "v3" + v[2:]
	case strings.HasSuffix(p, "/v2"), strings.HasSuffix(p, ".v2"):
		v = "v2" + v[2:]
	}
	return ModVer{p, v}
}

// PoolSize is the number of distinct modules in the pool.
const PoolSize = 60

// RecordText is the go.sum record of m in the universe flavour f: two lines,
// the module hash and the go.mod hash. Different flavours give different
// hashes for the same module (what a forked log would contain).
func RecordText(m ModVer, flavour uint64) string {
	h := func(tag string) string {
		s := sha256.Sum256([]byte(fmt.Sprintf("%s|%s|%s|%d", m.Path, m.Vers, tag, flavour)))
		return base64.StdEncoding.EncodeToString(s[:])
	}
	return fmt.Sprintf("%s %s h1:%s\n%s %s/go.mod h1:%s\n", m.Path, m.Vers, h("zip"), m.Path, m.Vers, h("mod"))
}

// Lines returns the go.sum lines of a record for path and vers (vers may end
// in /go.mod): the lines with prefix "path vers ".
func Lines(text, path, vers string) []string {
	var out []string
	prefix := path + " " + vers + " "
	for _, l := range strings.Split(text, "\n") {
		if strings.HasPrefix(l, prefix) {
			out = append(out, l)
		}
	}
	return out
}

// Universe is one log: an append-only list of records.
type Universe struct {
	Name    string
	Mods    []ModVer
	Records []string
	Tree    *ref.Tree
	ByKey   map[string]int64
	signed  map[int64][]byte
}

// NewUniverse returns an empty universe.
func NewUniverse(name string) *Universe {
	return &Universe{Name: name, Tree: ref.NewTree(), ByKey: map[string]int64{}, signed: map[int64][]byte{}}
}

// Add appends a record for m with the given flavour; returns its id.
func (u *Universe) Add(m ModVer, flavour uint64) int64 {
	if id, ok := u.ByKey[m.Key()]; ok {
		return id
	}
	id := int64(len(u.Records))
	text := RecordText(m, flavour)
	u.Mods = append(u.Mods, m)
	u.Records = append(u.Records, text)
	u.Tree.Append([]byte(text))
	u.ByKey[m.Key()] = id
	return id
}

// Fork returns a copy of the first k records as a new universe.
func (u *Universe) Fork(name string, k int64) *Universe {
	f := NewUniverse(name)
	for i := int64(0); i < k; i++ {
		f.Mods = append(f.Mods, u.Mods[i])
		f.Records = append(f.Records, u.Records[i])
		f.Tree.Append([]byte(u.Records[i]))
		f.ByKey[u.Mods[i].Key()] = i
	}
	return f
}

// N is the number of records.
func (u *Universe) N() int64 { return int64(len(u.Records)) }

// HeadText is the tree head text for size n.
func (u *Universe) HeadText(n int64) string { return ref.FormatTreeText(n, u.Tree.MTH(n)) }

// Signed returns the head of size n signed by the log key.
func (u *Universe) Signed(n int64) []byte {
	if b, ok := u.signed[n]; ok {
		return b
	}
	b := ref.SignNote(u.HeadText(n), Key)
	u.signed[n] = b
	return b
}

// LookupResponse is the honest /lookup response for record id with head size n.
func (u *Universe) LookupResponse(id, n int64) []byte {
	return append([]byte(ref.FormatRecordMsg(id, u.Records[id])), u.Signed(n)...)
}

// ---- reference tile coordinates (tile/H/L/NNN[.p/W], N in groups of three digits) ----

// TileCoord is a hash tile coordinate.
type TileCoord struct {
	H, L int
	N    int64
	W    int
}

// TilePath formats a tile path per the documented encoding.
func TilePath(t TileCoord) string {
	n := t.N
	s := fmt.Sprintf("%03d", n%1000)
	for n >= 1000 {
		n /= 1000
		s = fmt.Sprintf("x%03d/%s", n%1000, s)
	}
	p := fmt.Sprintf("tile/%d/%d/%s", t.H, t.L, s)
	if t.W != 1<<uint(t.H) {
		p += fmt.Sprintf(".p/%d", t.W)
	}
	return p
}

// ParseTilePathRef parses a hash-tile path by the documented encoding
// (reference parser, independent of tlog.ParseTilePath).
func ParseTilePathRef(p string) (TileCoord, bool) {
	f := strings.Split(p, "/")
	if len(f) < 4 || f[0] != "tile" {
		return TileCoord{}, false
	}
	var t TileCoord
	if _, err := fmt.Sscanf(f[1], "%d", &t.H); err != nil || fmt.Sprint(t.H) != f[1] || t.H < 1 || t.H > 30 {
		return TileCoord{}, false
	}
	if _, err := fmt.Sscanf(f[2], "%d", &t.L); err != nil || fmt.Sprint(t.L) != f[2] || t.L < 0 {
		return TileCoord{}, false
	}
	rest := f[3:]
	t.W = 1 << uint(t.H)
	if len(rest) >= 2 && strings.HasSuffix(rest[len(rest)-2], ".p") {
		if _, err := fmt.Sscanf(rest[len(rest)-1], "%d", &t.W); err != nil || fmt.Sprint(t.W) != rest[len(rest)-1] || t.W < 1 || t.W >= 1<<uint(t.H) {
			return TileCoord{}, false
		}
		rest = rest[:len(rest)-1]
		rest[len(rest)-1] = strings.TrimSuffix(rest[len(rest)-1], ".p")
	}
	for i, e := range rest {
		last := i == len(rest)-1
		if !last {
			if !strings.HasPrefix(e, "x") {
				return TileCoord{}, false
			}
			e = e[1:]
		}
		if len(e) != 3 {
			return TileCoord{}, false
		}
		v := 0
		for _, c := range e {
			if c < '0' || c > '9' {
				return TileCoord{}, false
			}
			v = v*10 + int(c-'0')
		}
		t.N = t.N*1000 + int64(v)
	}
	if TilePath(t) != p {
		return TileCoord{}, false
	}
	return t, true
}

// TileInTree reports whether tile t lies completely inside a tree of n records.
func TileInTree(t TileCoord, n int64) bool {
	if t.H*t.L >= 62 {
		return false
	}
	return (t.N<<uint(t.H)+int64(t.W))<<uint(t.H*t.L) <= n
}

// TileData returns the true content of t in u (t must be inside the tree).
func (u *Universe) TileData(t TileCoord) []byte { return u.Tree.TileData(t.H, t.L, t.N, t.W) }
