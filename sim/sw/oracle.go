package sw

import (
	"fmt"
	"strings"

	"verif/sim/ref"
)

// headOf finds a universe and size whose true head text is text.
func (w *World) headOf(text string) (*Universe, int64, bool) {
	n, h, ok := ref.ParseTreeText(text)
	if !ok {
		return nil, 0, false
	}
	for _, u := range w.Universes {
		if n <= u.N() && u.Tree.MTH(n) == h {
			return u, n, true
		}
	}
	return nil, 0, false
}

// headsSeen returns the (universe, size) pairs of validly signed true heads
// delivered to machine m so far. A head whose text matches several universes
// (common prefix) is listed for each.
func (w *World) headsSeen(m *Machine) [][2]interface{} {
	var out [][2]interface{}
	for _, text := range SortedKeys(m.SeenHeads) {
		n, h, ok := ref.ParseTreeText(text)
		if !ok {
			continue
		}
		for _, u := range w.Universes {
			if n <= u.N() && u.Tree.MTH(n) == h {
				out = append(out, [2]interface{}{u, n})
			}
		}
	}
	return out
}

// recordAuthenticated reports whether record text at id is a leaf of some
// validly signed head delivered to machine m.
func (w *World) recordAuthenticated(m *Machine, id int64, text string) bool {
	for _, hs := range w.headsSeen(m) {
		u, n := hs[0].(*Universe), hs[1].(int64)
		if id < n && u.Records[id] == text {
			return true
		}
	}
	return false
}

// CheckLookupResult is the soundness oracle (C01.1): a successful lookup
// returns exactly the matching lines of a record authenticated under a
// validly signed head that had been delivered to the client's machine.
func (w *World) CheckLookupResult(prop string, c *ClientInfo, path, vers string, lines []string, err error) {
	if err != nil || len(lines) == 0 {
		return
	}
	for _, u := range w.Universes {
		for id, text := range u.Records {
			got := Lines(text, path, vers)
			if len(got) == len(lines) && strings.Join(got, "\n") == strings.Join(lines, "\n") {
				if w.recordAuthenticated(c.Machine, int64(id), text) {
					return
				}
			}
		}
	}
	w.Res.Fail(prop, "lookup-sound", "lookup returned lines of a forged record",
		"client %d Lookup(%s, %s) succeeded with lines %q which are not the lines of any record included in a validly signed tree head delivered to the client; faults fired: %v",
		c.ID, path, vers, lines, w.Res.Faults)
}

// CheckCacheWrite is the cache-hygiene oracle (C01.2), evaluated inside the
// WriteCache seam.
func (w *World) CheckCacheWrite(prop string, c *ClientInfo, file string, data []byte) {
	rel := strings.TrimPrefix(file, ServerName+"/")
	if rel == file {
		w.Res.Fail(prop, "cache-name", "cache file outside the server's directory", "WriteCache(%q)", file)
		return
	}
	if strings.HasPrefix(rel, "lookup/") {
		id, text, rest, ok := ref.SplitRecordMsg(string(data))
		if !ok {
			w.Res.Fail(prop, "cache-lookup-wellformed", "malformed lookup file cached", "client %d cached %q: %d bytes that do not parse as record+head; faults fired: %v", c.ID, file, len(data), w.Res.Faults)
			return
		}
		if !w.recordAuthenticated(c.Machine, id, text) {
			w.Res.Fail(prop, "cache-record-authentic", "unauthenticated record written to the cache",
				"client %d cached %q with record #%d %q which is not included in any validly signed head delivered to the client; faults fired: %v", c.ID, file, id, text, w.Res.Faults)
			return
		}
		// An empty tree-head part is accepted: the client treats it as the unsigned empty timeline and
		// authenticates the record against the head it already holds, so nothing unauthenticated is stored.
		if _, ok := ValidSignedHead([]byte(rest)); !ok && rest != "" {
			w.Res.Fail(prop, "cache-head-signed", "lookup file cached with a tree head that is not validly signed",
				"client %d cached %q whose tree head part has no valid signature by the configured key; faults fired: %v", c.ID, file, w.Res.Faults)
		}
		return
	}
	t, ok := ParseTilePathRef(rel)
	if !ok {
		w.Res.Fail(prop, "cache-name", "unexpected cache file name", "WriteCache(%q)", file)
		return
	}
	if len(data) != t.W*32 {
		w.Res.Fail(prop, "cache-tile-authentic", "tile cached with bytes that were never authenticated",
			"client %d cached tile %s with %d bytes; an authenticated tile of width %d has exactly %d; faults fired: %v", c.ID, rel, len(data), t.W, t.W*32, w.Res.Faults)
		return
	}
	for _, hs := range w.headsSeen(c.Machine) {
		u, n := hs[0].(*Universe), hs[1].(int64)
		if TileInTree(t, n) && string(u.TileData(t)) == string(data) {
			return
		}
	}
	w.Res.Fail(prop, "cache-tile-authentic", "tile cached with bytes that were never authenticated",
		"client %d cached tile %s whose content is not the true tile of any validly signed tree delivered to the client; faults fired: %v", c.ID, rel, w.Res.Faults)
}

// CheckConfigWrite is the config-hygiene oracle (C01.3): the stored latest
// head is a true head carrying a valid signature of the configured key.
func (w *World) CheckConfigWrite(prop string, c *ClientInfo, file string, old, new []byte) {
	if file != ServerName+"/latest" {
		w.Res.Fail(prop, "config-name", "unexpected configuration file written", "WriteConfig(%q)", file)
		return
	}
	text, ok := ValidSignedHead(new)
	if !ok {
		w.Res.Fail(prop, "config-head-signed", "stored latest head is not validly signed",
			"client %d WriteConfig stored %d bytes that are not a note validly signed by the configured key; faults fired: %v", c.ID, len(new), w.Res.Faults)
		return
	}
	if _, _, ok := w.headOf(text); !ok {
		w.Res.Fail(prop, "config-head-true", "stored latest head is not a head of any log", "client %d stored head %q", c.ID, text)
	}
}

// HeadInfo describes a stored head.
func (w *World) HeadInfo(msg []byte) string {
	if len(msg) == 0 {
		return "<empty>"
	}
	text, ok := ValidSignedHead(msg)
	if !ok {
		return "<not validly signed>"
	}
	n, _, _ := ref.ParseTreeText(text)
	names := []string{}
	for _, u := range w.Universes {
		if n <= u.N() && u.HeadText(n) == text {
			names = append(names, u.Name)
		}
	}
	return fmt.Sprintf("size %d of %v", n, names)
}
