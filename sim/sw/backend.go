package sw

import (
	"bytes"
	"context"
	"crypto/ed25519"
	"fmt"
	"net/http"
	"net/url"
	"os"

	"golang.org/x/mod/module"
	"golang.org/x/mod/sumdb"
	"golang.org/x/mod/sumdb/tlog"

	"verif/sim/ref"
	"verif/sim/sched"
)

func ed25519Verify(k *ref.Key, text string, sig []byte) bool {
	return ed25519.Verify(k.Pub, []byte(text), sig)
}

// ---- in-memory HTTP plumbing (no sockets) ----

type recorder struct {
	code int
	hdr  http.Header
	body bytes.Buffer
}

func (r *recorder) Header() http.Header         { return r.hdr }
func (r *recorder) Write(b []byte) (int, error) { return r.body.Write(b) }
func (r *recorder) WriteHeader(c int) {
	if r.code == 0 {
		r.code = c
	}
}

// serveHTTP calls the real sumdb.Server handler for path and maps non-200 to an error.
func serveHTTP(srv *sumdb.Server, path string) (data []byte, err error) {
	defer func() {
		if e := recover(); e != nil {
			if e == sched.Aborted {
				panic(e) // task teardown, not a handler failure
			}
			err = fmt.Errorf("500 handler panic: %v", e)
		}
	}()
	req := &http.Request{Method: "GET", URL: &url.URL{Path: path}, Header: http.Header{}, Proto: "HTTP/1.1"}
	req = req.WithContext(context.Background())
	rec := &recorder{hdr: http.Header{}}
	srv.ServeHTTP(rec, req)
	if rec.code != 0 && rec.code != 200 {
		return nil, &HTTPError{Code: rec.code, Body: rec.body.String()}
	}
	return rec.body.Bytes(), nil
}

// HTTPError is a non-200 response.
type HTTPError struct {
	Code int
	Body string
}

func (e *HTTPError) Error() string { return fmt.Sprintf("HTTP %d: %s", e.Code, e.Body) }

// ---- backend 1: the real sumdb.Server over the real sumdb.TestServer ----

// RealBackend serves every client from one real TestServer whose log grows
// as new modules are requested.
type RealBackend struct {
	TS  *sumdb.TestServer
	Srv *sumdb.Server
	// Known is the set of modules gosum knows; others yield not-exist.
	Known map[string]string // key -> record text
	// GosumCalls counts gosum invocations per key.
	GosumCalls map[string]int
	W          *World
}

// NewRealBackend builds the real server stack.
func NewRealBackend(w *World) *RealBackend {
	b := &RealBackend{Known: map[string]string{}, GosumCalls: map[string]int{}, W: w}
	b.TS = sumdb.NewTestServer(Key.SignerText(), b.gosum)
	b.Srv = sumdb.NewServer(b.TS)
	return b
}

func (b *RealBackend) gosum(path, vers string) ([]byte, error) {
	// Called by TestServer.Lookup with no lock held: a hook point, so that two
	// requests for the same new module interleave inside the server.
	// The world mutex is held by the ReadRemote seam that led here; release it
	// around the yield so that other tasks can use the world.
	b.W.Mu.Unlock()
	func() {
		defer b.W.Mu.Lock() // also when the task is torn down while parked here
		sched.Yield("gosum " + path + "@" + vers)
	}()
	key := path + "@" + vers
	b.GosumCalls[key]++
	text, ok := b.Known[key]
	if !ok {
		return nil, os.ErrNotExist
	}
	return []byte(text), nil
}

func (b *RealBackend) Serve(w *World, c *ClientInfo, path string) ([]byte, error) {
	return serveHTTP(b.Srv, path)
}

// ---- backend 2: the real sumdb.Server over harness ServerOps on a universe ----

// UniBackend serves client c from (c.Uni, c.Size) through the real
// sumdb.Server handler, and cross-checks each response with the reference.
type UniBackend struct{}

type uniOps struct {
	u *Universe
	n int64
}

func (o *uniOps) Signed(ctx context.Context) ([]byte, error) { return o.u.Signed(o.n), nil }

func (o *uniOps) ReadRecords(ctx context.Context, id, n int64) ([][]byte, error) {
	var out [][]byte
	for i := id; i < id+n; i++ {
		if i < 0 || i >= o.n {
			return nil, fmt.Errorf("missing records")
		}
		out = append(out, []byte(o.u.Records[i]))
	}
	return out, nil
}

func (o *uniOps) Lookup(ctx context.Context, m module.Version) (int64, error) {
	id, ok := o.u.ByKey[m.Path+"@"+m.Version]
	if !ok || id >= o.n {
		return 0, os.ErrNotExist
	}
	return id, nil
}

func (o *uniOps) ReadTileData(ctx context.Context, t tlog.Tile) ([]byte, error) {
	tc := TileCoord{H: t.H, L: t.L, N: t.N, W: t.W}
	// a static tile server holds the tiles of the largest tree published so far
	if t.L < 0 || !TileInTree(tc, o.u.N()) {
		return nil, os.ErrNotExist
	}
	return o.u.TileData(tc), nil
}

func (UniBackend) Serve(w *World, c *ClientInfo, path string) ([]byte, error) {
	srv := sumdb.NewServer(&uniOps{u: c.Uni, n: c.Size})
	return serveHTTP(srv, path)
}
