package sw

import (
	"bytes"
	"errors"
	"fmt"
	"os"
	"sort"
	"strings"
	"sync"

	"golang.org/x/mod/sumdb"

	"verif/sim/choice"
	"verif/sim/core"
	"verif/sim/ref"
	"verif/sim/sched"
)

// Backend produces the honest response for a remote path.
type Backend interface {
	// Serve returns the honest response for path as seen by client c now.
	Serve(w *World, c *ClientInfo, path string) ([]byte, error)
}

// Fault is one planned fault: it fires on the Occ-th (0-based) occurrence of
// a seam call of class Class made by client Client (-1: any client).
type Fault struct {
	Client int
	Class  string // see classOf*
	Occ    int
	Kind   string
	A, B   uint64
	fired  bool
}

// Machine is the durable state shared by the clients of one machine.
type Machine struct {
	ID     int
	Cache  map[string][]byte
	Config map[string][]byte // name -> content (the "key" entry is fixed)
	// CaseFold makes cache file names case-insensitive (like some file systems).
	CaseFold bool
	// ConfigWrites is the ordered history of successful WriteConfig calls on name/latest.
	ConfigWrites []ConfigWrite
	// SeenHeads: validly signed heads delivered to this machine through any seam, by text.
	SeenHeads map[string]bool
}

// ConfigWrite is one successful compare-and-swap of the latest-head file.
type ConfigWrite struct {
	Client   int
	Old, New []byte
	Step     int
}

// ClientInfo is one simulated client process.
type ClientInfo struct {
	ID      int
	Machine *Machine
	Group   int
	Height  int
	// Serving selects what the network shows this client: universe and size.
	Uni  *Universe
	Size int64
	// ViewOf, if set, is asked before every remote read which log and size the network shows to the
	// goroutine that is reading (an equivocating server may answer each connection differently);
	// it returns nil to leave the client's view as it is.
	ViewOf func() (*Universe, int64)
	// per-class occurrence counters
	occ map[string]int
	// Ops counts external operations by kind.
	Ops map[string]int
	// per-file counters (C14: fetched at most once per client)
	CacheReads  map[string]int
	RemoteReads map[string]int
	Security    []string
	Logs        []string
	Crashed     bool
	// FatalSecurity: the SecurityError callback ends the process (what a real program typically does);
	// otherwise it only records the message and the client goes on.
	FatalSecurity bool
	Exited        bool
	// Tainted is set when any fault fired on a seam call of this client.
	Tainted bool
	// TaintedFiles: remote paths / cache files whose delivery was faulted.
	TaintedKeys map[string]bool
	// Delivered: for each lookup (keyed by remote path) the bytes last handed to this client,
	// from the network or from the cache.
	Delivered map[string][]byte
	// LatestReads: every content of name/latest this client has read, with the scheduler step of the read.
	LatestReads []ConfigRead
	// LookupStart: the scheduler step at which the Lookup now running in a goroutine (keyed by the
	// goroutine's slot) was called.
	LookupStart map[int]int
	// CurrentTask: the goroutine slot whose Lookup just returned (valid inside the afterLookup callback).
	CurrentTask int
	// FirstConfig is the first content of name/latest this client read.
	FirstConfig    []byte
	HasFirstConfig bool
	// ForgedLeaf: leaf hashes the network substitutes in level-0 tiles served to this client.
	ForgedLeaf map[int64]ref.Hash
	// ForgedUni: a self-consistent forged log whose tiles the network serves to this client.
	ForgedUni *Universe
}

// ConfigRead is one read of the stored latest head.
type ConfigRead struct {
	Step int
	Data []byte
}

// World is the environment of one simulated run.
type World struct {
	Mu        sync.Mutex
	Res       *core.Result
	Universes []*Universe
	Machines  []*Machine
	Clients   []*ClientInfo
	Backend   Backend
	Faults    []*Fault
	// OnWriteCache / OnWriteConfig are online oracles evaluated inside the seam.
	OnWriteCache  func(c *ClientInfo, file string, data []byte)
	OnWriteConfig func(c *ClientInfo, file string, old, new []byte)
	// Now is the scheduler step counter, maintained by the entry.
	StepFn func() int
	// StaleLookups remembers honest lookup responses by path (for stale replay).
	StaleLookups map[string][][]byte
}

// NewWorld returns an empty world logging into res.
func NewWorld(res *core.Result) *World {
	return &World{Res: res, StaleLookups: map[string][][]byte{}}
}

// NewMachine adds a machine with an empty cache and the verifier key installed.
func (w *World) NewMachine() *Machine {
	m := &Machine{ID: len(w.Machines), Cache: map[string][]byte{}, Config: map[string][]byte{}, SeenHeads: map[string]bool{}}
	m.Config["key"] = []byte(Key.VerifierText() + "\n")
	m.Config[ServerName+"/latest"] = []byte{}
	w.Machines = append(w.Machines, m)
	return m
}

// NewClient adds a client process on machine m.
func (w *World) NewClient(m *Machine, group, height int, u *Universe, size int64) *ClientInfo {
	c := &ClientInfo{ID: len(w.Clients), Machine: m, Group: group, Height: height, Uni: u, Size: size,
		occ: map[string]int{}, Ops: map[string]int{}, CacheReads: map[string]int{}, RemoteReads: map[string]int{}, TaintedKeys: map[string]bool{}, Delivered: map[string][]byte{}}
	w.Clients = append(w.Clients, c)
	return c
}

// Ops returns the sumdb.ClientOps of client c.
func (w *World) OpsFor(c *ClientInfo) sumdb.ClientOps { return &ops{w: w, c: c} }

type ops struct {
	w *World
	c *ClientInfo
}

var errSim = errors.New("simulated I/O error")

func (w *World) step() int {
	if w.StepFn != nil {
		return w.StepFn()
	}
	return 0
}

// findFault returns the planned fault for this call, if any, and counts the occurrence.
func (w *World) findFault(c *ClientInfo, class string) *Fault {
	k := c.occ[class]
	c.occ[class] = k + 1
	for _, f := range w.Faults {
		if !f.fired && f.Class == class && f.Occ == k && (f.Client < 0 || f.Client == c.ID) {
			return f
		}
	}
	return nil
}

func (w *World) fire(c *ClientInfo, f *Fault, key string, what string) {
	f.fired = true
	c.Tainted = true
	c.TaintedKeys[key] = true
	w.Res.Faults[f.Kind]++
	w.Res.Logf("c%d FAULT %s on %s: %s", c.ID, f.Kind, key, what)
}

// noteSeen records validly signed heads contained in data (a lookup response,
// cache entry or config content) as delivered to the machine.
func (w *World) noteSeen(m *Machine, data []byte) {
	note := data
	if _, _, rest, ok := ref.SplitRecordMsg(string(data)); ok {
		note = []byte(rest)
	} else if i := strings.Index(string(data), "\n\n"); i >= 0 {
		// not a well-formed record message (a negative record number, say): the client may still take the
		// signed head that follows the first blank line before it rejects the record
		if text, ok := ValidSignedHead(data[i+2:]); ok {
			m.SeenHeads[text] = true
		}
	}
	if text, ok := ValidSignedHead(note); ok {
		m.SeenHeads[text] = true
	}
}

// ValidSignedHead reports whether msg is a note carrying a valid signature
// by the log key, returning its text.
func ValidSignedHead(msg []byte) (string, bool) {
	pn, ok := ref.ParseNote(msg)
	if !ok {
		return "", false
	}
	for _, s := range pn.Sigs {
		if s.Name == Key.Name && s.Hash == Key.Hash && len(s.Sig) == 64 && ed25519Verify(Key, pn.Text, s.Sig) {
			return pn.Text, true
		}
	}
	return "", false
}

func classOfRemote(c *ClientInfo, path string) string {
	if strings.HasPrefix(path, "/lookup/") {
		return "net:lookup"
	}
	if t, ok := ParseTilePathRef(strings.TrimPrefix(path, "/")); ok {
		if t.W == 1<<uint(t.H) {
			return fmt.Sprintf("net:tile:L%d:full", t.L)
		}
		return fmt.Sprintf("net:tile:L%d", t.L)
	}
	return "net:other"
}

func (o *ops) ReadRemote(path string) ([]byte, error) {
	sched.Yield("ReadRemote " + path)
	w, c := o.w, o.c
	w.Mu.Lock()
	defer w.Mu.Unlock()
	c.Ops["ReadRemote"]++
	c.RemoteReads[path]++
	if c.ViewOf != nil {
		if u, n := c.ViewOf(); u != nil {
			c.Uni, c.Size = u, n
		}
	}
	data, err := w.Backend.Serve(w, c, path)
	class := classOfRemote(c, path)
	if err == nil && class == "net:lookup" {
		w.StaleLookups[path] = append(w.StaleLookups[path], append([]byte(nil), data...))
	}
	if err == nil && strings.HasPrefix(class, "net:tile") {
		data = w.patchTile(c, path, data)
	}
	if f := w.findFault(c, class); f != nil {
		data, err = w.applyNetFault(c, f, path, data, err)
	} else if f := w.findFault(c, "net:any"); f != nil {
		data, err = w.applyNetFault(c, f, path, data, err)
	}
	if err != nil {
		w.Res.Logf("c%d ReadRemote %s -> error %v", c.ID, path, err)
		return nil, err
	}
	w.noteSeen(c.Machine, data)
	if class == "net:lookup" {
		c.Delivered[path] = append([]byte(nil), data...)
	}
	w.Res.Logf("c%d ReadRemote %s -> %d bytes %016x", c.ID, path, len(data), choice.MixString(string(data)))
	return append([]byte(nil), data...), nil
}

func (m *Machine) cacheKey(file string) string {
	if m.CaseFold {
		return strings.ToLower(file)
	}
	return file
}

func (o *ops) ReadCache(file string) ([]byte, error) {
	sched.Yield("ReadCache " + file)
	w, c := o.w, o.c
	w.Mu.Lock()
	defer w.Mu.Unlock()
	c.Ops["ReadCache"]++
	c.CacheReads[file]++
	data, ok := c.Machine.Cache[c.Machine.cacheKey(file)]
	class := "cache:read:tile"
	if strings.Contains(file, "/lookup/") {
		class = "cache:read:lookup"
	}
	if f := w.findFault(c, class); f != nil {
		switch f.Kind {
		case "cache-read-error": // benign: equivalent to a miss
			if ok {
				w.fireBenign(c, f, file, "read error treated as miss")
			}
			w.Res.Logf("c%d ReadCache %s -> error", c.ID, file)
			return nil, errSim
		case "cache-bitflip", "cache-truncate", "cache-cross", "cache-garbage", "cache-swap":
			if ok {
				data = w.applyDiskFault(c, f, file, data)
			}
		}
	}
	if !ok {
		w.Res.Logf("c%d ReadCache %s -> miss", c.ID, file)
		return nil, os.ErrNotExist
	}
	w.noteSeen(c.Machine, data)
	if class == "cache:read:lookup" {
		c.Delivered[strings.TrimPrefix(file, ServerName)] = append([]byte(nil), data...)
	}
	w.Res.Logf("c%d ReadCache %s -> %d bytes %016x", c.ID, file, len(data), choice.MixString(string(data)))
	return append([]byte(nil), data...), nil
}

func (w *World) fireBenign(c *ClientInfo, f *Fault, key, what string) {
	f.fired = true
	w.Res.Faults[f.Kind]++
	w.Res.Logf("c%d BENIGN %s on %s: %s", c.ID, f.Kind, key, what)
}

func (o *ops) WriteCache(file string, data []byte) {
	sched.Yield("WriteCache " + file)
	w, c := o.w, o.c
	w.Mu.Lock()
	defer w.Mu.Unlock()
	c.Ops["WriteCache"]++
	w.Res.Logf("c%d WriteCache %s %d bytes %016x", c.ID, file, len(data), choice.MixString(string(data)))
	if w.OnWriteCache != nil {
		w.OnWriteCache(c, file, data)
	}
	if f := w.findFault(c, "cache:write"); f != nil {
		switch f.Kind {
		case "cache-write-dropped": // benign: a cache may forget
			w.fireBenign(c, f, file, "write dropped")
			return
		case "cache-write-torn": // disk fault: only a prefix reaches the disk
			n := 0
			if len(data) > 0 {
				n = int(f.A % uint64(len(data)))
			}
			w.fire(c, f, file, fmt.Sprintf("torn write keeps %d of %d bytes", n, len(data)))
			c.Machine.Cache[c.Machine.cacheKey(file)] = append([]byte(nil), data[:n]...)
			return
		}
	}
	c.Machine.Cache[c.Machine.cacheKey(file)] = append([]byte(nil), data...)
}

func (o *ops) ReadConfig(file string) ([]byte, error) {
	sched.Yield("ReadConfig " + file)
	w, c := o.w, o.c
	w.Mu.Lock()
	defer w.Mu.Unlock()
	c.Ops["ReadConfig"]++
	if f := w.findFault(c, "config:read"); f != nil && f.Kind == "config-read-error" {
		w.fireBenignErr(c, f, file)
		return nil, errSim
	}
	if file == "key" && c.HasFirstConfig {
		// The client reads its key again: it is initialising itself again (legal after a failed attempt).
		// What it found in the configuration in the attempt it gave up does not commit it to anything;
		// the head it reads next is the one it starts from.
		c.HasFirstConfig, c.FirstConfig = false, nil
		w.Res.Probes["client-initialised-again"]++
	}
	data, ok := c.Machine.Config[file]
	if !ok {
		w.Res.Logf("c%d ReadConfig %s -> not found", c.ID, file)
		return nil, os.ErrNotExist
	}
	w.noteSeen(c.Machine, data)
	if file == ServerName+"/latest" {
		c.LatestReads = append(c.LatestReads, ConfigRead{Step: w.StepFn(), Data: append([]byte(nil), data...)})
	}
	if file == ServerName+"/latest" && !c.HasFirstConfig {
		c.HasFirstConfig = true
		c.FirstConfig = append([]byte(nil), data...)
	}
	w.Res.Logf("c%d ReadConfig %s -> %d bytes %016x", c.ID, file, len(data), choice.MixString(string(data)))
	return append([]byte(nil), data...), nil
}

// fireBenignErr: an I/O error is an honest failure (the call fails loudly);
// lookups that consumed it may fail but the environment was not dishonest.
func (w *World) fireBenignErr(c *ClientInfo, f *Fault, key string) {
	f.fired = true
	c.Tainted = true
	c.TaintedKeys[key] = true
	w.Res.Faults[f.Kind]++
	w.Res.Logf("c%d FAULT %s on %s", c.ID, f.Kind, key)
}

func (o *ops) WriteConfig(file string, old, new []byte) error {
	sched.Yield("WriteConfig " + file)
	w, c := o.w, o.c
	w.Mu.Lock()
	defer w.Mu.Unlock()
	c.Ops["WriteConfig"]++
	if f := w.findFault(c, "config:write"); f != nil && f.Kind == "config-write-error" {
		w.fireBenignErr(c, f, file)
		return errSim
	}
	cur := c.Machine.Config[file]
	if !bytes.Equal(cur, old) {
		w.Res.Probes["WriteConfig-conflict"]++
		w.Res.Logf("c%d WriteConfig %s -> conflict", c.ID, file)
		return sumdb.ErrWriteConflict
	}
	w.Res.Logf("c%d WriteConfig %s %016x -> %016x", c.ID, file, choice.MixString(string(old)), choice.MixString(string(new)))
	if w.OnWriteConfig != nil {
		w.OnWriteConfig(c, file, old, new)
	}
	c.Machine.Config[file] = append([]byte(nil), new...)
	if file == ServerName+"/latest" {
		c.Machine.ConfigWrites = append(c.Machine.ConfigWrites, ConfigWrite{Client: c.ID, Old: append([]byte(nil), old...), New: append([]byte(nil), new...), Step: w.step()})
	}
	return nil
}

func (o *ops) Log(msg string) {
	o.w.Mu.Lock()
	defer o.w.Mu.Unlock()
	o.c.Logs = append(o.c.Logs, msg)
}

func (o *ops) SecurityError(msg string) {
	o.w.Mu.Lock()
	o.c.Security = append(o.c.Security, msg)
	o.w.Res.Probes["SecurityError-called"]++
	o.w.Res.Logf("c%d SecurityError (%d bytes)", o.c.ID, len(msg))
	fatal := o.c.FatalSecurity
	if fatal {
		o.c.Exited = true
		o.c.Crashed = true
		o.w.Res.Logf("c%d process exits in its security callback", o.c.ID)
		o.w.Res.Probes["process-exit-in-security-callback"]++
	}
	o.w.Mu.Unlock()
	if fatal {
		sched.ExitGroup(o.c.Group)
	}
}

// SortedKeys returns the sorted keys of a map.
func SortedKeys[V any](m map[string]V) []string {
	ks := make([]string, 0, len(m))
	for k := range m {
		ks = append(ks, k)
	}
	sort.Strings(ks)
	return ks
}
