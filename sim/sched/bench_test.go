package sched

import (
	"testing"
	"time"

	"verif/sim/choice"
)

func TestHandoffCost(t *testing.T) {
	for _, ntasks := range []int{1, 2, 4} {
		s := New(choice.New(1))
		s.MaxSteps = 1 << 30
		const n = 20000
		for i := 0; i < ntasks; i++ {
			s.Go("t", 1, func() {
				for k := 0; k < n/ntasks; k++ {
					Yield("y")
				}
			})
		}
		t0 := time.Now()
		s.Run()
		s.Close()
		t.Logf("%d tasks: %d steps in %v = %v/step", ntasks, s.Steps(), time.Since(t0), time.Since(t0)/time.Duration(s.Steps()))
	}
}
