// Package sched is a cooperative scheduler for real goroutines: exactly one
// task runs at a time, it runs until its next hook point and parks there, and
// the scheduler decides from the choice tape who runs next. One tape is one
// exactly repeatable interleaving.
//
// Hand-off between tasks and the scheduler goes through pipes read and
// written with syscall.Syscall(SYS_READ/SYS_WRITE) directly. The race
// detector treats channels, mutexes, atomics and syscall.Read/Write as
// synchronisation; a hand-off built on any of them would order every step
// before the next and hide every race in the code under test. Raw system
// calls are invisible to it, so two accesses that the scheduler serialised
// physically but that no lock orders are still reported. For that to hold the
// scheduler never acquires anything from a task through Go synchronisation:
// everything a task tells the scheduler travels as bytes through the request
// pipe; the scheduler only ever *stores* atomics that tasks load.
package sched

import (
	"encoding/binary"
	"fmt"
	"os"
	"runtime"
	"runtime/debug"
	"strings"
	"sync"
	"sync/atomic"
	"syscall"
	"unsafe"

	"verif/sim/choice"
)

const (
	maxTasks = 8192

	msgPark  = 1
	msgDone  = 2
	msgSpawn = 3
	msgCtl   = 4 // a task asks the scheduler to tear down a task group (a process that exits)

	kindYield    = 0
	kindBlocked  = 1 // waiting for a mutex that was held when last looked at
	kindOnce     = 2
	kindOnceExit = 3
	kindWait     = 4
	kindStart    = 5 // created, has not run yet

	cmdRun     = 1
	cmdAbort   = 2
	cmdSpawned = 3
)

type abortSentinel struct{}

// Aborted is kept for harness code that wants to recognise a teardown; tasks are torn down with
// runtime.Goexit (see tearDown), which code under test cannot recover from.
var Aborted = abortSentinel{}

// tearDown ends the calling task: its deferred functions run and the goroutine exits. A panic would
// do the same only as long as nothing on the stack recovers it; code under test does recover panics
// (tileReader.ReadTiles), and a torn-down task that carries on would block for real.
func tearDown() {
	runtime.Goexit()
}

type task struct {
	id       int
	name     string
	group    int
	parent   int
	wakeR    int
	wakeW    int
	state    int // kind while parked
	parked   bool
	done     bool
	label    string
	key      uint64 // once key
	blockGen int    // progress generation at which it blocked
	children []int
}

// Step is one scheduling decision (for traces).
type Step struct {
	Task  int
	Name  string
	Label string
}

// Sched is one simulated run's scheduler.
type Sched struct {
	src        *choice.Src
	reqR, reqW int
	tasks      []*task
	progress   int
	steps      int
	MaxSteps   int
	// PCT > 0 selects the priority policy of that depth (see SetShape)
	PCT        int
	pctPrio    map[int]int
	pctChange  map[int]bool
	pctLow     int
	SwitchNum  int // probability SwitchNum/SwitchDen of considering a context switch when the previous task can continue
	SwitchDen  int
	prev       int
	onceOwner  map[[2]uint64]int
	onceDone   map[[2]uint64]bool
	Trace      []Step
	Digest     uint64
	Switches   int
	Deadlock   bool
	OverBudget bool
	at         map[int][]func()
	join       sync.WaitGroup
	nextGroup  int
	// BlockedNote describes the blocked tasks at deadlock.
	BlockedNote  string
	traceCap     int
	stepsA       atomic.Int64 // mirror of steps, stored by the scheduler only
	idleQ        []func()
	pendingAbort []int
	pmu          sync.Mutex
	// Panics lists real (non-abort) panics of tasks; read after Close.
	Panics []string
}

// process-wide state read by hooks (stored only by the scheduler goroutine)
var (
	active  atomic.Pointer[Sched]
	current atomic.Int32
	wakeFds [maxTasks]atomic.Int32
	reqFd   atomic.Int32
	// rootOf[i] is the task started with Go from which task i descends (itself for such a task); stored
	// by the scheduler when the task is created, before the task first runs.
	rootOf [maxTasks]atomic.Int32
	// abortedFlag[i] is touched only by task i's own goroutine.
	abortedFlag [maxTasks]bool
)

// New creates a scheduler drawing its decisions from src.
func New(src *choice.Src) *Sched {
	var p [2]int
	if err := syscall.Pipe(p[:]); err != nil {
		panic(err)
	}
	s := &Sched{src: src, reqR: p[0], reqW: p[1], MaxSteps: 20000, SwitchNum: 1, SwitchDen: 4, prev: -1,
		onceOwner: map[[2]uint64]int{}, onceDone: map[[2]uint64]bool{}, at: map[int][]func(){}, traceCap: 3000}
	reqFd.Store(int32(p[1]))
	current.Store(-1)
	active.Store(s)
	return s
}

// Close releases the scheduler's descriptors; call after Run.
func (s *Sched) Close() {
	active.Store(nil)
	s.join.Wait() // the one synchronising join: after it the harness may read what tasks wrote
	syscall.Close(s.reqR)
	syscall.Close(s.reqW)
	for _, t := range s.tasks {
		if t.wakeR >= 0 {
			syscall.Close(t.wakeR)
			syscall.Close(t.wakeW)
		}
	}
}

// Active reports whether a scheduler is installed (hooks are no-ops otherwise).
func Active() bool { return active.Load() != nil }

// NewGroup allocates a task group id (one per simulated client process).
func (s *Sched) NewGroup() int { s.nextGroup++; return s.nextGroup }

func (s *Sched) newTask(name string, group, parent int) *task {
	if len(s.tasks) >= maxTasks {
		// a limit of the harness, not a property of the code under test
		fmt.Fprintf(os.Stderr, "HARNESS: sched: more than %d tasks in one run\n", maxTasks)
		os.Exit(2)
	}
	var p [2]int
	if err := syscall.Pipe(p[:]); err != nil {
		panic(err)
	}
	t := &task{id: len(s.tasks), name: name, group: group, parent: parent, wakeR: p[0], wakeW: p[1], state: kindStart, parked: true}
	if parent >= 0 {
		rootOf[t.id].Store(rootOf[parent].Load())
	} else {
		rootOf[t.id].Store(int32(t.id))
	}
	s.tasks = append(s.tasks, t)
	wakeFds[t.id].Store(int32(p[0]))
	return t
}

// Go creates a task that will run fn. Scheduler goroutine only (before Run or
// from an At callback).
func (s *Sched) Go(name string, group int, fn func()) int {
	t := s.newTask(name, group, -1)
	id := t.id
	s.join.Add(1)
	go func() {
		defer s.join.Done()
		abortedFlag[id] = false
		cmd, _ := waitWake(id)
		if cmd == cmdAbort {
			abortedFlag[id] = true
			sendMsg(msgDone, id, 0, 0, "")
			return
		}
		defer func() {
			if e := recover(); e != nil {
				if _, ok := e.(abortSentinel); !ok {
					// a real panic in a task (code under test or harness): recorded, the entry decides what it means
					s.pmu.Lock()
					s.Panics = append(s.Panics, fmt.Sprintf("task %s: %v\n%s", name, e, cleanStack(debug.Stack())))
					s.pmu.Unlock()
				}
			}
			sendMsg(msgDone, id, 0, 0, "")
		}()
		fn()
	}()
	return id
}

// NextTaskID is the id the next task created with Go will get. Scheduler goroutine only.
func (s *Sched) NextTaskID() int { return len(s.tasks) }

// At registers fn to run on the scheduler goroutine right before scheduling
// step number `step` (0-based).
func (s *Sched) At(step int, fn func()) { s.at[step] = append(s.at[step], fn) }

// WhenIdle registers fn to run on the scheduler goroutine the next time no
// task is alive (callbacks run one at a time, in registration order).
func (s *Sched) WhenIdle(fn func()) { s.idleQ = append(s.idleQ, fn) }

// Steps returns the number of scheduling steps taken so far (callable from tasks).
func (s *Sched) Steps() int { return int(s.stepsA.Load()) }

func (s *Sched) eligible(t *task) bool {
	if t.done || !t.parked {
		return false
	}
	switch t.state {
	case kindBlocked:
		return s.progress > t.blockGen
	case kindOnce:
		k := [2]uint64{uint64(t.group), t.key}
		o, started := s.onceOwner[k]
		return !started || s.onceDone[k] || o == t.id
	case kindWait:
		for _, c := range t.children {
			if !s.tasks[c].done {
				return false
			}
		}
		return true
	}
	return true
}

// Run schedules until every task is done, deadlock, or the step budget.
func (s *Sched) Run() {
	for {
		if fns := s.at[s.steps]; fns != nil {
			delete(s.at, s.steps)
			for _, fn := range fns {
				fn()
			}
		}
		var ready []*task
		alive := 0
		for _, t := range s.tasks {
			if !t.done {
				alive++
			}
			if s.eligible(t) {
				ready = append(ready, t)
			}
		}
		if alive == 0 {
			if len(s.idleQ) > 0 {
				fn := s.idleQ[0]
				s.idleQ = s.idleQ[1:]
				fn()
				continue
			}
			return
		}
		if len(ready) == 0 {
			s.Deadlock = true
			for _, t := range s.tasks {
				if !t.done {
					s.BlockedNote += fmt.Sprintf("[%s parked at %q state %d] ", t.name, t.label, t.state)
				}
			}
			s.abortAll()
			return
		}
		if s.steps >= s.MaxSteps {
			s.OverBudget = true
			s.abortAll()
			return
		}
		t := s.pick(ready)
		if s.prev >= 0 && s.prev != t.id {
			s.Switches++
		}
		s.prev = t.id
		s.steps++
		s.stepsA.Store(int64(s.steps))
		if len(s.Trace) < s.traceCap {
			s.Trace = append(s.Trace, Step{t.id, t.name, t.label})
		}
		s.Digest = choice.Mix(s.Digest, uint64(t.id), choice.MixString(t.label))
		if t.state == kindOnce {
			k := [2]uint64{uint64(t.group), t.key}
			if _, started := s.onceOwner[k]; !started {
				s.onceOwner[k] = t.id
			}
		}
		s.wake(t, cmdRun, 0)
		for len(s.pendingAbort) > 0 {
			g := s.pendingAbort[0]
			s.pendingAbort = s.pendingAbort[1:]
			s.AbortGroup(g)
		}
	}
}

// SetShape sets the scheduling policy from one drawn number: 0-3 are random policies that stay with
// the running task with probability 1 - 1/den (den 1, 2, 4, 16); 4 and 5 are priority policies
// (PCT, Burckhardt et al. 2010) of depth 2 and 3: every task gets a random priority when it first
// becomes runnable, the runnable task of highest priority always runs, and at depth-1 steps drawn in
// advance the running task drops below all others. A bug that needs d ordering constraints among n
// tasks in k steps is hit by one such run with probability at least 1/(n k^(d-1)), whatever k is,
// whereas uniformly random switching needs every one of its coin flips to fall right.
func (s *Sched) SetShape(k int) {
	s.SwitchNum = 1
	s.SwitchDen = []int{1, 2, 4, 16, 1, 1}[k%6]
	if k%6 >= 4 {
		s.PCT = k%6 - 2
	}
}

func (s *Sched) pickPCT(ready []*task) *task {
	if s.pctPrio == nil {
		s.pctPrio = map[int]int{}
		s.pctChange = map[int]bool{}
		horizon := []int{30, 120, 500}[s.src.Intn(3)]
		for i := 1; i < s.PCT; i++ {
			s.pctChange[s.src.Intn(horizon)] = true
		}
		s.pctLow = -1
	}
	var best *task
	for _, t := range ready {
		if _, ok := s.pctPrio[t.id]; !ok {
			s.pctPrio[t.id] = 1 + s.src.Intn(1<<20)
		}
		if best == nil || s.pctPrio[t.id] > s.pctPrio[best.id] || s.pctPrio[t.id] == s.pctPrio[best.id] && t.id < best.id {
			best = t
		}
	}
	if s.pctChange[s.steps] {
		s.pctPrio[best.id] = s.pctLow
		s.pctLow--
	}
	return best
}

func (s *Sched) pick(ready []*task) *task {
	if s.PCT > 0 {
		return s.pickPCT(ready)
	}
	if len(ready) == 1 {
		return ready[0]
	}
	for _, t := range ready {
		if t.id == s.prev {
			if !s.src.Bool(s.SwitchNum, s.SwitchDen) {
				return t
			}
			break
		}
	}
	return ready[s.src.Intn(len(ready))]
}

// wake hands the processor to t and waits until t (and any children it
// spawned meanwhile) are parked or done.
func (s *Sched) wake(t *task, cmd, arg uint32) {
	t.parked = false
	current.Store(int32(t.id))
	writeWake(t.wakeW, cmd, arg)
	outstanding := 1
	for outstanding > 0 {
		kind, id, a, b, label := readMsg(s.reqR)
		m := s.tasks[id]
		switch kind {
		case msgPark:
			m.parked = true
			m.state = int(a)
			m.key = b
			m.label = label
			if m.state == kindBlocked {
				m.blockGen = s.progress
			} else {
				s.progress++
			}
			if m.state == kindOnceExit {
				k := [2]uint64{uint64(m.group), m.key}
				if s.onceOwner[k] == m.id {
					s.onceDone[k] = true
				}
				m.state = kindYield
			}
			outstanding--
		case msgDone:
			m.done = true
			m.parked = false
			// the task never reads its wake pipe again: release the descriptors now, so that a run's
			// descriptor use is bounded by the tasks alive at one time, not by the tasks ever created
			if m.wakeR >= 0 {
				syscall.Close(m.wakeR)
				syscall.Close(m.wakeW)
				m.wakeR, m.wakeW = -1, -1
			}
			s.progress++
			// a task that dies inside Once.Do has completed the Once (sync.Once marks it done on panic)
			for k, o := range s.onceOwner {
				if o == m.id {
					s.onceDone[k] = true
				}
			}
			outstanding--
		case msgCtl:
			s.pendingAbort = append(s.pendingAbort, int(a))
		case msgSpawn:
			c := s.newTask(fmt.Sprintf("%s/child%d", m.name, len(m.children)), m.group, m.id)
			c.parked = false
			m.children = append(m.children, c.id)
			outstanding++ // the child will report when it parks in its enter hook
			writeWake(m.wakeW, cmdSpawned, uint32(c.id))
		}
	}
	current.Store(-1)
}

// AbortGroup tears down every task of a group (a simulated process crash):
// each is woken with an abort command, unwinds by panicking from its hook,
// and is waited for, one at a time in id order.
func (s *Sched) AbortGroup(group int) {
	for i := 0; i < len(s.tasks); i++ {
		t := s.tasks[i]
		if t.group == group && !t.done && t.parked {
			s.wake(t, cmdAbort, 0)
		}
	}
	// anything still alive in the group was blocked in a way that did not unwind
	for k := range s.onceOwner {
		if int(k[0]) == group {
			delete(s.onceOwner, k)
			delete(s.onceDone, k)
		}
	}
}

func (s *Sched) abortAll() {
	for round := 0; round < 3; round++ {
		for i := 0; i < len(s.tasks); i++ {
			t := s.tasks[i]
			if !t.done && t.parked {
				s.wake(t, cmdAbort, 0)
			}
		}
	}
}

// ---- task side ----

func sendMsg(kind, id int, a, b uint64, label string) {
	if len(label) > 200 {
		label = label[:200]
	}
	buf := make([]byte, 28+len(label))
	binary.LittleEndian.PutUint32(buf[0:], uint32(kind))
	binary.LittleEndian.PutUint32(buf[4:], uint32(id))
	binary.LittleEndian.PutUint64(buf[8:], a)
	binary.LittleEndian.PutUint64(buf[16:], b)
	binary.LittleEndian.PutUint32(buf[24:], uint32(len(label)))
	copy(buf[28:], label)
	rawWrite(int(reqFd.Load()), buf)
}

func readMsg(fd int) (kind, id int, a, b uint64, label string) {
	var h [28]byte
	rawReadFull(fd, h[:])
	kind = int(binary.LittleEndian.Uint32(h[0:]))
	id = int(binary.LittleEndian.Uint32(h[4:]))
	a = binary.LittleEndian.Uint64(h[8:])
	b = binary.LittleEndian.Uint64(h[16:])
	n := int(binary.LittleEndian.Uint32(h[24:]))
	if n > 0 {
		lb := make([]byte, n)
		rawReadFull(fd, lb)
		label = string(lb)
	}
	return
}

func writeWake(fd int, cmd, arg uint32) {
	var b [8]byte
	binary.LittleEndian.PutUint32(b[0:], cmd)
	binary.LittleEndian.PutUint32(b[4:], arg)
	rawWrite(fd, b[:])
}

func waitWake(id int) (cmd, arg uint32) {
	var b [8]byte
	rawReadFull(int(wakeFds[id].Load()), b[:])
	return binary.LittleEndian.Uint32(b[0:]), binary.LittleEndian.Uint32(b[4:])
}

func rawWrite(fd int, b []byte) {
	for len(b) > 0 {
		n, _, e := syscall.Syscall(syscall.SYS_WRITE, uintptr(fd), uintptr(unsafe.Pointer(&b[0])), uintptr(len(b)))
		if e == syscall.EINTR {
			continue
		}
		if e != 0 {
			fmt.Fprintf(os.Stderr, "HARNESS: sched pipe write: %v\n", e)
			os.Exit(2)
		}
		b = b[n:]
	}
}

func rawReadFull(fd int, b []byte) {
	for len(b) > 0 {
		n, _, e := syscall.Syscall(syscall.SYS_READ, uintptr(fd), uintptr(unsafe.Pointer(&b[0])), uintptr(len(b)))
		if e == syscall.EINTR {
			continue
		}
		if e != 0 || n == 0 {
			fmt.Fprintf(os.Stderr, "HARNESS: sched pipe read: %v n=%d\n", e, n)
			os.Exit(2)
		}
		b = b[n:]
	}
}

// CurrentRoot returns the id (as returned by Go) of the task the calling goroutine belongs to: the
// task itself, or the task whose code spawned it through HookSpawn. -1 outside tasks.
func CurrentRoot() int {
	if active.Load() == nil {
		return -1
	}
	id := me()
	if id < 0 {
		return -1
	}
	return int(rootOf[id].Load())
}

// me returns the id of the calling task (the one the scheduler let run).
func me() int { return int(current.Load()) }

// park reports the task parked and blocks until it is chosen again.
func park(id, kind int, key uint64, label string) {
	sendMsg(msgPark, id, uint64(kind), key, label)
	cmd, _ := waitWake(id)
	if cmd == cmdAbort {
		abortedFlag[id] = true
		tearDown()
	}
}

// Yield is a hook point: the calling task parks and the scheduler decides who runs.
func Yield(label string) {
	if active.Load() == nil {
		return
	}
	id := me()
	if id < 0 {
		return // not a task (e.g. harness code on the scheduler goroutine)
	}
	if abortedFlag[id] {
		// a torn-down task must not perform any further external operation
		tearDown()
	}
	park(id, kindYield, 0, label)
}

// ExitGroup is called by a task whose simulated process exits (os.Exit in a callback): the scheduler
// tears down every task of the group once the caller has unwound; the caller itself is torn
// down and so never returns into the code under test.
func ExitGroup(group int) {
	if active.Load() == nil {
		return
	}
	id := me()
	if id < 0 {
		return
	}
	sendMsg(msgCtl, id, uint64(group), 0, "")
	abortedFlag[id] = true
	tearDown()
}

// IsAborted reports whether the calling task has been torn down.
func IsAborted() bool {
	id := me()
	return id >= 0 && abortedFlag[id]
}

// HookLock is installed as the mutex hook: it returns only when mu is free
// at a moment when this task has been chosen to run, so the caller's Lock
// succeeds without blocking.
func HookLock(mu *sync.Mutex, label string) {
	if active.Load() == nil {
		return
	}
	id := me()
	if id < 0 {
		return
	}
	if abortedFlag[id] {
		if mu.TryLock() {
			mu.Unlock()
			return
		}
		tearDown()
	}
	for {
		kind := kindYield
		if mu.TryLock() {
			mu.Unlock()
		} else {
			kind = kindBlocked
		}
		park(id, kind, 0, label)
		if mu.TryLock() {
			mu.Unlock()
			return
		}
	}
}

// HookOnceEnter parks until the Once is free, owned by this task, or done.
func HookOnceEnter(o *sync.Once) {
	if active.Load() == nil {
		return
	}
	id := me()
	if id < 0 || abortedFlag[id] {
		return
	}
	park(id, kindOnce, uint64(uintptr(unsafe.Pointer(o))), "once.enter")
}

// HookOnceExit marks the Once done if this task ran it.
func HookOnceExit(o *sync.Once) {
	if active.Load() == nil {
		return
	}
	id := me()
	if id < 0 || abortedFlag[id] {
		return
	}
	park(id, kindOnceExit, uint64(uintptr(unsafe.Pointer(o))), "once.exit")
}

// HookSpawn registers a child task; the returned function is the child's
// enter hook, which returns the child's exit hook.
func HookSpawn() func() func() {
	nop := func() func() { return func() {} }
	if active.Load() == nil {
		return nop
	}
	id := me()
	if id < 0 {
		return nop
	}
	if abortedFlag[id] {
		tearDown()
	}
	sendMsg(msgSpawn, id, 0, 0, "")
	cmd, child := waitWake(id)
	if cmd != cmdSpawned {
		fmt.Fprintf(os.Stderr, "HARNESS: sched: unexpected reply %d to spawn\n", cmd)
		os.Exit(2)
	}
	cid := int(child)
	return func() func() {
		// runs on the child goroutine
		abortedFlag[cid] = false
		sendMsg(msgPark, cid, kindYield, 0, "child.start")
		c, _ := waitWake(cid)
		if c == cmdAbort {
			abortedFlag[cid] = true
			// Unwind the child: its deferred functions run, then the exit hook.
			return func() { sendMsg(msgDone, cid, 0, 0, "") }
		}
		return func() { sendMsg(msgDone, cid, 0, 0, "") }
	}
}

// HookWait parks until every child of the calling task is done.
func HookWait() {
	if active.Load() == nil {
		return
	}
	id := me()
	if id < 0 || abortedFlag[id] {
		return
	}
	park(id, kindWait, 0, "wg.wait")
}

// cleanStack reduces a stack dump to function names and file:line, dropping
// goroutine numbers, argument words and pc offsets so that the text is the
// same in every execution of the same schedule.
func cleanStack(b []byte) string {
	var out []string
	for _, line := range strings.Split(string(b), "\n") {
		switch {
		case line == "" || strings.HasPrefix(line, "goroutine "):
			continue
		case strings.HasPrefix(line, "\t"):
			if i := strings.LastIndex(line, " +0x"); i >= 0 {
				line = line[:i]
			}
			out = append(out, "  "+strings.TrimSpace(line))
		default:
			if i := strings.LastIndex(line, "("); i >= 0 {
				line = line[:i]
			}
			out = append(out, line)
		}
	}
	return strings.Join(out, "\n")
}
