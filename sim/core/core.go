// Package core defines what a simulated run returns and the registry of
// run entry points ("entries"). An entry is a pure function of a choice
// tape; explore workers feed it seeded tapes, sweeps feed it constructed
// tapes, replays feed it a recorded tape.
package core

import (
	"fmt"
	"sort"
	"strings"

	"verif/sim/choice"
)

// Violation describes a property violation found by an oracle.
type Violation struct {
	Property string `json:"property"`
	// Oracle names the oracle clause that fired. Shrinking keeps a candidate
	// only if the same clause fires again.
	Oracle string `json:"oracle"`
	Detail string `json:"detail"`
	// Signature is a structural description of the failing case that does not
	// depend on seeds or sizes more than necessary; known findings are matched
	// against it.
	Signature string `json:"signature"`
}

func (v *Violation) String() string {
	return fmt.Sprintf("%s/%s: %s", v.Property, v.Oracle, v.Detail)
}

// Result is what one simulated run reports.
type Result struct {
	Violation *Violation
	Trace     []string       // bounded human-readable event log of the run
	Faults    map[string]int // faults that FIRED (were consumed by real code), by kind
	Probes    map[string]int // rare-branch probes
	Steps     int            // simulated time: scheduler steps / seam events
	Sig       uint64         // signature of the case/interleaving for distinct counting
	Trivial   bool           // true if the run is trivial by the entry's stated rule
	Sample    interface{}    // JSON-able description of the case (kept for a few runs)
	Digest    uint64         // digest of the complete event log (determinism self-test)
	Events    int            // number of logged events
	// Abandoned is set when the run left a goroutine of the code under test spinning (non-termination);
	// the worker stops exploring after such a run.
	Abandoned bool
	scrub     []string
}

// Scrub registers a run-specific string (a temporary directory name) that is replaced by
// "<sandbox>" in every logged line and violation text, so that texts are identical in every execution.
func (r *Result) Scrub(s string) {
	if s != "" {
		r.scrub = append(r.scrub, s)
	}
}

func (r *Result) scrubbed(line string) string {
	for _, s := range r.scrub {
		line = strings.ReplaceAll(line, s, "<sandbox>")
	}
	return line
}

// NewResult returns an empty result.
func NewResult() *Result {
	return &Result{Faults: map[string]int{}, Probes: map[string]int{}}
}

// Logf appends to the bounded trace.
func (r *Result) Logf(format string, a ...interface{}) {
	line := r.scrubbed(fmt.Sprintf(format, a...))
	r.Digest = choice.Mix(r.Digest, choice.MixString(line))
	r.Events++
	if len(r.Trace) < 400 {
		r.Trace = append(r.Trace, line)
	} else if len(r.Trace) == 400 {
		r.Trace = append(r.Trace, "... trace truncated ...")
	}
}

// Fail records the first violation of the run.
func (r *Result) Fail(prop, oracle, sig, format string, a ...interface{}) {
	if r.Violation != nil {
		return
	}
	r.Violation = &Violation{Property: prop, Oracle: oracle, Signature: sig, Detail: r.scrubbed(fmt.Sprintf(format, a...))}
	r.Logf("VIOLATION %s", r.Violation)
}

// Entry is a run function.
type Entry struct {
	Name string
	Run  func(src *choice.Src) *Result
}

// Sweep enumerates constructed tapes for an entry. emit runs one case and
// returns false when the sweep should stop (budget exhausted).
type Sweep struct {
	Name  string
	Entry string
	// Enumerate calls emit for the cases of shard `shard` of `nshards`.
	// quick selects the reduced space. It reports whether the stated space was
	// enumerated completely (false if emit stopped it).
	Enumerate func(quick bool, seed uint64, shard, nshards int, emit func(tape []uint64) bool) (complete bool)
	Space     string // description of the space
}

// Prop is a property's machinery.
type Prop struct {
	ID      string
	Entries []Entry
	// Explore lists the entries used for seeded exploration with weights.
	Explore []string
	Sweeps  []Sweep
	// Rule explains how cases are generated and what makes one non-trivial.
	Rule string
	// Real / Stub list which components ran real code and which were simulated.
	Real []string
	Stub []string
	// Assumptions are stated in the evidence.
	Assumptions []string
	// NeedsRace is true if the check must be built with -race.
	NeedsRace bool
}

var registry = map[string]*Prop{}

// Register adds a property.
func Register(p *Prop) { registry[p.ID] = p }

// Lookup finds a property.
func Lookup(id string) *Prop { return registry[id] }

// IDs lists registered property ids.
func IDs() []string {
	var ids []string
	for id := range registry {
		ids = append(ids, id)
	}
	sort.Strings(ids)
	return ids
}

// FindEntry finds an entry of a property by name.
func (p *Prop) FindEntry(name string) *Entry {
	for i := range p.Entries {
		if p.Entries[i].Name == name {
			return &p.Entries[i]
		}
	}
	return nil
}

var quickTier = true

// SetTier selects the quick or thorough parameter ranges.
func SetTier(quick bool) { quickTier = quick }

// Quick reports whether the quick tier is selected.
func Quick() bool { return quickTier }

// ReplayEnv is recorded in replay files: everything besides the tape that a
// run depends on.
func ReplayEnv() map[string]string {
	if quickTier {
		return map[string]string{"tier": "quick"}
	}
	return map[string]string{"tier": "thorough"}
}

// ApplyReplayEnv restores the recorded environment.
func ApplyReplayEnv(m map[string]string) {
	if t, ok := m["tier"]; ok {
		quickTier = t != "thorough"
	}
}

var harnessErr string

// SetHarnessError records a malfunction of the machinery itself (never a
// property violation); the worker exits 2.
func SetHarnessError(s string) {
	if harnessErr == "" {
		harnessErr = s
	}
}

// HarnessError returns the recorded malfunction, if any.
func HarnessError() string { return harnessErr }

var expectedProbes = map[string][]string{}

// ExpectProbes declares probes that a healthy thorough run should hit; the
// evidence carries a warning for any of them that stayed at zero.
func ExpectProbes(id string, names ...string) {
	expectedProbes[id] = append(expectedProbes[id], names...)
}

// ExpectedProbes returns the declared probes.
func ExpectedProbes(id string) []string { return expectedProbes[id] }

var replaying bool

// SetReplaying marks the process as re-executing a recorded run (replay, shrink candidate in a child).
func SetReplaying(b bool) { replaying = b }

// Replaying reports whether a recorded run is being re-executed. Only used where a run samples a
// source of nondeterminism the simulator does not control (Go's map iteration order in C16): a
// replay then samples more often.
func Replaying() bool { return replaying }
