package ref

import "strings"

// SemverCompare orders two canonical versions (vMAJOR.MINOR.PATCH[-pre][+build])
// by SemVer 2.0.0 precedence. It is only used on versions the harness
// generates itself (always well formed).
func SemverCompare(a, b string) int {
	pa, pb := parseSemver(a), parseSemver(b)
	for i := 0; i < 3; i++ {
		if c := cmpNum(pa.num[i], pb.num[i]); c != 0 {
			return c
		}
	}
	switch {
	case pa.pre == "" && pb.pre == "":
		return 0
	case pa.pre == "":
		return 1
	case pb.pre == "":
		return -1
	}
	ia, ib := strings.Split(pa.pre, "."), strings.Split(pb.pre, ".")
	for i := 0; i < len(ia) && i < len(ib); i++ {
		x, y := ia[i], ib[i]
		nx, ny := isNum(x), isNum(y)
		switch {
		case nx && ny:
			if c := cmpNum(x, y); c != 0 {
				return c
			}
		case nx:
			return -1
		case ny:
			return 1
		default:
			if x != y {
				if x < y {
					return -1
				}
				return 1
			}
		}
	}
	switch {
	case len(ia) < len(ib):
		return -1
	case len(ia) > len(ib):
		return 1
	}
	return 0
}

type semverParts struct {
	num [3]string
	pre string
}

func parseSemver(v string) semverParts {
	v = strings.TrimPrefix(v, "v")
	if i := strings.Index(v, "+"); i >= 0 {
		v = v[:i]
	}
	var p semverParts
	if i := strings.Index(v, "-"); i >= 0 {
		p.pre = v[i+1:]
		v = v[:i]
	}
	f := strings.Split(v, ".")
	for i := 0; i < 3; i++ {
		p.num[i] = "0"
		if i < len(f) {
			p.num[i] = f[i]
		}
	}
	return p
}

func isNum(s string) bool {
	if s == "" {
		return false
	}
	for _, c := range s {
		if c < '0' || c > '9' {
			return false
		}
	}
	return true
}

func cmpNum(a, b string) int {
	a, b = strings.TrimLeft(a, "0"), strings.TrimLeft(b, "0")
	if len(a) != len(b) {
		if len(a) < len(b) {
			return -1
		}
		return 1
	}
	if a < b {
		return -1
	}
	if a > b {
		return 1
	}
	return 0
}
