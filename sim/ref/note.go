package ref

import (
	"bytes"
	"crypto/ed25519"
	"crypto/sha256"
	"encoding/base64"
	"encoding/binary"
	"fmt"
	"strconv"
	"strings"
	"unicode"
	"unicode/utf8"
)

// Signed-note format, from the documentation of package note:
//
//	<text, every line ends in \n, non-empty, valid UTF-8 without ASCII control
//	 characters other than \n>
//	<blank line>
//	— <name> base64(<4-byte big-endian key hash> <signature>)\n   (one or more)
//
// Key hash: first 4 bytes of SHA-256(name || "\n" || algorithm byte || key).
// Ed25519 (algorithm 1): signature is the 64-byte signature over text.
// Verifier key text:  <name>+<8 hex digits of hash>+base64(alg || public key)
// Signer key text:    PRIVATE+KEY+<name>+<hash>+base64(alg || 32-byte seed)

const sigPrefix = "— "

// Key is an Ed25519 note key.
type Key struct {
	Name string
	Pub  ed25519.PublicKey
	Priv ed25519.PrivateKey
	Hash uint32
}

// NewKey derives a key deterministically from a name and a seed number.
func NewKey(name string, seed uint64) *Key {
	var s [32]byte
	binary.LittleEndian.PutUint64(s[:], seed)
	copy(s[8:], "verif-sim-key")
	d := sha256.Sum256(s[:])
	priv := ed25519.NewKeyFromSeed(d[:])
	pub := priv.Public().(ed25519.PublicKey)
	return &Key{Name: name, Pub: pub, Priv: priv, Hash: KeyHash(name, append([]byte{1}, pub...))}
}

// KeyHash is the documented key hash.
func KeyHash(name string, key []byte) uint32 {
	h := sha256.New()
	h.Write([]byte(name))
	h.Write([]byte("\n"))
	h.Write(key)
	sum := h.Sum(nil)
	return binary.BigEndian.Uint32(sum)
}

// VerifierText is the encoded verifier key.
func (k *Key) VerifierText() string {
	return fmt.Sprintf("%s+%08x+%s", k.Name, k.Hash, base64.StdEncoding.EncodeToString(append([]byte{1}, k.Pub...)))
}

// SignerText is the encoded signer key.
func (k *Key) SignerText() string {
	return fmt.Sprintf("PRIVATE+KEY+%s+%08x+%s", k.Name, k.Hash, base64.StdEncoding.EncodeToString(append([]byte{1}, k.Priv.Seed()...)))
}

// SigLine returns the signature line of k over text.
func (k *Key) SigLine(text string) string {
	return RawSigLine(k.Name, k.Hash, ed25519.Sign(k.Priv, []byte(text)))
}

// RawSigLine formats a signature line from its parts.
func RawSigLine(name string, hash uint32, sig []byte) string {
	var b [4]byte
	binary.BigEndian.PutUint32(b[:], hash)
	return sigPrefix + name + " " + base64.StdEncoding.EncodeToString(append(b[:], sig...)) + "\n"
}

// SignNote returns text signed by the keys.
func SignNote(text string, keys ...*Key) []byte {
	var b bytes.Buffer
	b.WriteString(text)
	b.WriteString("\n")
	for _, k := range keys {
		b.WriteString(k.SigLine(text))
	}
	return b.Bytes()
}

// ValidNoteText reports whether text is valid note text: non-empty... the
// documentation requires valid UTF-8, no ASCII control characters below
// U+0020 other than newline, and a final newline.
func ValidNoteText(text string) bool {
	if !utf8.ValidString(text) {
		return false
	}
	for _, r := range text {
		if r < 0x20 && r != '\n' {
			return false
		}
	}
	return strings.HasSuffix(text, "\n")
}

// ValidKeyName: non-empty, valid UTF-8, no spaces (Unicode) and no '+'.
func ValidKeyName(name string) bool {
	if name == "" || !utf8.ValidString(name) || strings.Contains(name, "+") {
		return false
	}
	for _, r := range name {
		// no Unicode space (documented for names) and no ASCII control character (documented for every
		// byte of a message, of which the name becomes a part)
		if unicode.IsSpace(r) || r < 0x20 {
			return false
		}
	}
	return true
}

// ParsedSig is one signature line.
type ParsedSig struct {
	Name   string
	Hash   uint32
	Base64 string
	Sig    []byte // bytes after the 4-byte hash
}

// ParsedNote is the syntactic split of a message.
type ParsedNote struct {
	Text string
	Sigs []ParsedSig
}

// ParseNote splits msg syntactically as documented: the text is everything
// up to and including the newline before the LAST blank line; the lines
// after it are signature lines. It returns ok=false for a message that the
// format forbids (invalid UTF-8 or control characters anywhere, no blank-line
// separator, no signature lines, a malformed signature line, missing final
// newline).
func ParseNote(msg []byte) (ParsedNote, bool) {
	s := string(msg)
	if !utf8.ValidString(s) {
		return ParsedNote{}, false
	}
	for _, r := range s {
		if r < 0x20 && r != '\n' {
			return ParsedNote{}, false
		}
	}
	i := strings.LastIndex(s, "\n\n")
	if i < 0 {
		return ParsedNote{}, false
	}
	text, sigs := s[:i+1], s[i+2:]
	if sigs == "" || !strings.HasSuffix(sigs, "\n") {
		return ParsedNote{}, false
	}
	var out ParsedNote
	out.Text = text
	for _, line := range strings.Split(strings.TrimSuffix(sigs, "\n"), "\n") {
		if !strings.HasPrefix(line, sigPrefix) {
			return ParsedNote{}, false
		}
		line = line[len(sigPrefix):]
		j := strings.Index(line, " ")
		if j < 0 {
			return ParsedNote{}, false
		}
		name, b64 := line[:j], line[j+1:]
		raw, err := base64.StdEncoding.DecodeString(b64)
		if err != nil || !ValidKeyName(name) || b64 == "" || len(raw) < 5 {
			return ParsedNote{}, false
		}
		out.Sigs = append(out.Sigs, ParsedSig{Name: name, Hash: binary.BigEndian.Uint32(raw), Base64: b64, Sig: raw[4:]})
	}
	return out, true
}

// ---- tree head and record text formats (package tlog documentation) ----

// FormatTreeText is "go.sum database tree\n<N>\n<base64 hash>\n".
func FormatTreeText(n int64, h Hash) string {
	return "go.sum database tree\n" + strconv.FormatInt(n, 10) + "\n" + base64.StdEncoding.EncodeToString(h[:]) + "\n"
}

// ParseTreeText parses the documented tree head text (extra lines after the
// hash are allowed for forward compatibility).
func ParseTreeText(text string) (n int64, h Hash, ok bool) {
	const p = "go.sum database tree\n"
	if !strings.HasPrefix(text, p) {
		return 0, Hash{}, false
	}
	lines := strings.SplitN(text[len(p):], "\n", 3)
	if len(lines) < 3 {
		return 0, Hash{}, false
	}
	v, err := strconv.ParseInt(lines[0], 10, 64)
	if err != nil || v < 0 || strconv.FormatInt(v, 10) != lines[0] {
		return 0, Hash{}, false
	}
	raw, err := base64.StdEncoding.DecodeString(lines[1])
	if err != nil || len(raw) != 32 {
		return 0, Hash{}, false
	}
	copy(h[:], raw)
	return v, h, true
}

// FormatRecordMsg is "<id>\n<text>\n" where text is the record text (each
// line newline-terminated, no blank lines).
func FormatRecordMsg(id int64, text string) string {
	return strconv.FormatInt(id, 10) + "\n" + text + "\n"
}

// ValidRecordText: valid UTF-8, no control characters except newline, ends
// with newline, no empty lines, non-empty.
func ValidRecordText(text string) bool {
	if text == "" || !utf8.ValidString(text) || !strings.HasSuffix(text, "\n") {
		return false
	}
	if strings.HasPrefix(text, "\n") || strings.Contains(text, "\n\n") {
		return false
	}
	for _, r := range text {
		if r < 0x20 && r != '\n' {
			return false
		}
	}
	return true
}

// SplitRecordMsg splits "<id>\n<text>\n<rest>" at the first blank line.
func SplitRecordMsg(msg string) (id int64, text, rest string, ok bool) {
	i := strings.Index(msg, "\n")
	if i < 0 {
		return 0, "", "", false
	}
	v, err := strconv.ParseInt(msg[:i], 10, 64)
	if err != nil || v < 0 || strconv.FormatInt(v, 10) != msg[:i] {
		return 0, "", "", false
	}
	body := msg[i+1:]
	j := strings.Index(body, "\n\n")
	if j < 0 {
		return 0, "", "", false
	}
	text, rest = body[:j+1], body[j+2:]
	if !ValidRecordText(text) {
		return 0, "", "", false
	}
	return v, text, rest, true
}
