package ref

import (
	"path"
	"strings"
	"unicode"
	"unicode/utf8"
)

// Module zip rules, written from the package documentation of
// golang.org/x/mod/zip, the documentation of module.CheckFilePath and the
// statement of the vendoring rule (with its pre-1.24 variant).

const (
	MaxZipFile = 500 << 20
	MaxGoMod   = 16 << 20
	MaxLICENSE = 16 << 20
)

var windowsReserved = []string{"CON", "PRN", "AUX", "NUL",
	"COM1", "COM2", "COM3", "COM4", "COM5", "COM6", "COM7", "COM8", "COM9",
	"LPT1", "LPT2", "LPT3", "LPT4", "LPT5", "LPT6", "LPT7", "LPT8", "LPT9"}

// FilePathOK is the documented validity of a slash-separated file path:
// valid UTF-8, non-empty elements, no element that is all dots or ends in a
// dot, characters limited to Unicode letters, ASCII digits, space and
// !#$%&()+,-.=@[]^_{}~ , and no element whose part before the first dot is a
// reserved Windows name.
func FilePathOK(p string) bool {
	if !utf8.ValidString(p) || p == "" {
		return false
	}
	for _, elem := range strings.Split(p, "/") {
		if elem == "" {
			return false
		}
		if strings.Trim(elem, ".") == "" {
			return false
		}
		if strings.HasSuffix(elem, ".") {
			return false
		}
		for _, r := range elem {
			switch {
			case r >= utf8.RuneSelf:
				if !unicode.IsLetter(r) {
					return false
				}
			case 'a' <= r && r <= 'z', 'A' <= r && r <= 'Z', '0' <= r && r <= '9':
			case strings.ContainsRune("!#$%&()+,-.=@[]^_{}~ ", r):
			default:
				return false
			}
		}
		short := elem
		if i := strings.Index(short, "."); i >= 0 {
			short = short[:i]
		}
		for _, bad := range windowsReserved {
			if strings.EqualFold(bad, short) {
				return false
			}
		}
	}
	return true
}

// GoAtLeast124 reports whether a go directive version ("1.24", "1.23.4",
// "1.25rc1", "") selects the 1.24+ vendoring rule.
func GoAtLeast124(v string) bool {
	if v == "" {
		return false
	}
	parts := strings.SplitN(v, ".", 3)
	if len(parts) < 2 || parts[0] != "1" {
		// go 2.x would be newer; unknown shapes count as old
		return len(parts) >= 1 && parts[0] != "0" && parts[0] != "1" && allDigits(parts[0])
	}
	minor := parts[1]
	n := 0
	i := 0
	for i < len(minor) && minor[i] >= '0' && minor[i] <= '9' {
		n = n*10 + int(minor[i]-'0')
		i++
	}
	if i == 0 {
		return false
	}
	return n >= 24
}

func allDigits(s string) bool {
	if s == "" {
		return false
	}
	for _, c := range s {
		if c < '0' || c > '9' {
			return false
		}
	}
	return true
}

// Vendored is the documented vendoring rule: a file is omitted when it lies in
// a package whose import path contains, but does not end with, the component
// "vendor". From go 1.24 vendor/modules.txt is omitted too, and a file
// directly inside a non-root vendor directory (pkg/vendor/vendor.go) is kept;
// before 1.24 every file below a non-root vendor directory is omitted.
func Vendored(name string, go124 bool) bool {
	if go124 && name == "vendor/modules.txt" {
		return true
	}
	if strings.HasPrefix(name, "vendor/") {
		return strings.Contains(name[len("vendor/"):], "/")
	}
	if j := strings.Index(name, "/vendor/"); j >= 0 {
		if go124 {
			return strings.Contains(name[j+len("/vendor/"):], "/")
		}
		return true
	}
	return false
}

// Collide reports whether two clean relative paths p and q (files) cannot
// coexist: some directory-or-file prefix of one equals a prefix of the other
// under case folding without being spelled identically, or the same spelling
// is a file in one and a directory in the other, or both are the same file.
func Collide(p, q string) bool {
	pp, qq := strings.Split(p, "/"), strings.Split(q, "/")
	n := len(pp)
	if len(qq) < n {
		n = len(qq)
	}
	for i := 0; i < n; i++ {
		a, b := pp[i], qq[i]
		lastP, lastQ := i == len(pp)-1, i == len(qq)-1
		if a == b {
			if lastP && lastQ {
				return true // the same file twice
			}
			if lastP != lastQ {
				return true // file in one, directory in the other
			}
			continue
		}
		if strings.EqualFold(a, b) {
			return true // case-fold collision at this component
		}
		return false // genuinely different components: the paths diverge
	}
	return false
}

// ZipEntry is one entry of an archive listing.
type ZipEntry struct {
	Name  string
	Size  uint64 // declared uncompressed size
	IsDir bool   // name ends in "/"
}

// ZipRestrictionViolation returns a description of the first documented
// restriction that the listing violates for module prefix "path@version/",
// or "" if it satisfies all of them.
func ZipRestrictionViolation(prefix string, entries []ZipEntry) string {
	var files []string
	var dirs []string
	total := uint64(0)
	for _, e := range entries {
		if !strings.HasPrefix(e.Name, prefix) {
			return "entry " + e.Name + " lacks the module prefix"
		}
		name := e.Name[len(prefix):]
		if name == "" {
			continue
		}
		isDir := strings.HasSuffix(name, "/")
		if isDir {
			name = name[:len(name)-1]
		}
		if path.Clean(name) != name || strings.HasPrefix(name, "/") {
			return "entry " + e.Name + " is not a clean relative path"
		}
		if !FilePathOK(name) {
			return "entry " + e.Name + " is not a valid file path"
		}
		if isDir {
			dirs = append(dirs, name)
			continue
		}
		base := path.Base(name)
		if strings.EqualFold(base, "go.mod") && name != "go.mod" {
			return "entry " + e.Name + ": go.mod only at the root in lower case"
		}
		if e.Size > MaxZipFile || total+e.Size > MaxZipFile {
			return "total uncompressed size above the limit"
		}
		total += e.Size
		if name == "go.mod" && e.Size > MaxGoMod {
			return "go.mod too large"
		}
		if name == "LICENSE" && e.Size > MaxLICENSE {
			return "LICENSE too large"
		}
		files = append(files, name)
	}
	for i := range files {
		for j := i + 1; j < len(files); j++ {
			if Collide(files[i], files[j]) {
				return "entries " + files[i] + " and " + files[j] + " collide"
			}
		}
		for _, d := range dirs {
			// a directory entry behaves like a file placed inside it under a name no real file can have
			if Collide(files[i], d+"/\x00") {
				return "entry " + files[i] + " collides with directory entry " + d
			}
		}
	}
	for i := range dirs {
		for j := i + 1; j < len(dirs); j++ {
			if Collide(dirs[i]+"/\x00", dirs[j]+"/\x01") {
				return "directory entries " + dirs[i] + " and " + dirs[j] + " collide"
			}
		}
	}
	return ""
}
