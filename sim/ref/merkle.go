// Package ref holds reference implementations written from the public
// specifications (RFC 6962 / RFC 9162, the signed-note format, the tree-head
// and record text formats, the dirhash "h1:" formula, the module zip rules).
// It shares no code with the library under test and imports none of it.
package ref

import (
	"crypto/sha256"
	"math/bits"
)

// Hash is a SHA-256 hash.
type Hash [32]byte

// LeafHash is RFC 6962 §2.1: SHA-256(0x00 || data).
func LeafHash(data []byte) Hash {
	h := sha256.New()
	h.Write([]byte{0})
	h.Write(data)
	var out Hash
	h.Sum(out[:0])
	return out
}

// NodeHash is RFC 6962 §2.1: SHA-256(0x01 || left || right).
func NodeHash(l, r Hash) Hash {
	h := sha256.New()
	h.Write([]byte{1})
	h.Write(l[:])
	h.Write(r[:])
	var out Hash
	h.Sum(out[:0])
	return out
}

// EmptyHash is the hash of the empty tree: SHA-256("").
func EmptyHash() Hash { return sha256.Sum256(nil) }

// Tree is a log of leaf hashes with memoised hashes of complete subtrees.
type Tree struct {
	Leaves []Hash
	memo   map[[2]int64]Hash // (level, offset) -> hash of complete subtree
	// A uniform tree has `un` identical leaves `uleaf`; it is never materialised, which allows
	// sizes far beyond memory (index arithmetic above 2^32). Subtree hashes then depend on the
	// level only and range hashes on the length only.
	uniform bool
	uleaf   Hash
	un      int64
	ulen    map[int64]Hash
}

// NewUniformTree returns a virtual tree of n identical leaves.
func NewUniformTree(n int64, leaf Hash) *Tree {
	return &Tree{memo: map[[2]int64]Hash{}, uniform: true, uleaf: leaf, un: n, ulen: map[int64]Hash{}}
}

// NewTree returns an empty tree.
func NewTree() *Tree { return &Tree{memo: map[[2]int64]Hash{}} }

// Clone returns an independent copy sharing no mutable state.
func (t *Tree) Clone() *Tree {
	c := NewTree()
	c.Leaves = append([]Hash(nil), t.Leaves...)
	return c
}

// Append adds a record.
func (t *Tree) Append(data []byte) { t.Leaves = append(t.Leaves, LeafHash(data)) }

// AppendLeaf adds a leaf hash.
func (t *Tree) AppendLeaf(h Hash) { t.Leaves = append(t.Leaves, h) }

// N is the number of leaves.
func (t *Tree) N() int64 {
	if t.uniform {
		return t.un
	}
	return int64(len(t.Leaves))
}

func (t *Tree) leaf(i int64) Hash {
	if t.uniform {
		return t.uleaf
	}
	return t.Leaves[i]
}

// Sub returns the hash of the complete subtree at (level, offset): the
// leaves [offset<<level, (offset+1)<<level). It must lie inside the tree.
func (t *Tree) Sub(level int, offset int64) Hash {
	if level == 0 {
		return t.leaf(offset)
	}
	if t.uniform {
		offset = 0
	}
	k := [2]int64{int64(level), offset}
	if h, ok := t.memo[k]; ok {
		return h
	}
	h := NodeHash(t.Sub(level-1, 2*offset), t.Sub(level-1, 2*offset+1))
	t.memo[k] = h
	return h
}

// largestPow2Below returns the largest power of two strictly less than n (n>1).
func largestPow2Below(n int64) int64 {
	return int64(1) << uint(bits.Len64(uint64(n-1))-1)
}

// MTHRange is the RFC 6962 Merkle Tree Hash of leaves [lo, hi), hi > lo.
func (t *Tree) MTHRange(lo, hi int64) Hash {
	n := hi - lo
	if n == 1 {
		return t.leaf(lo)
	}
	// complete aligned subtree: use the memo
	if n&(n-1) == 0 && (lo%n == 0 || t.uniform) {
		return t.Sub(bits.TrailingZeros64(uint64(n)), lo/n)
	}
	if t.uniform {
		if h, ok := t.ulen[n]; ok {
			return h
		}
	}
	k := largestPow2Below(n)
	h := NodeHash(t.MTHRange(lo, lo+k), t.MTHRange(lo+k, hi))
	if t.uniform {
		t.ulen[n] = h
	}
	return h
}

// MTH is the Merkle Tree Hash of the first n leaves.
func (t *Tree) MTH(n int64) Hash {
	if n == 0 {
		return EmptyHash()
	}
	return t.MTHRange(0, n)
}

// MTHNaive computes MTH by the recursive definition without any memo
// (used to cross-check the memoised version on small trees).
func MTHNaive(leaves []Hash) Hash {
	n := int64(len(leaves))
	if n == 0 {
		return EmptyHash()
	}
	if n == 1 {
		return leaves[0]
	}
	k := largestPow2Below(n)
	return NodeHash(MTHNaive(leaves[:k]), MTHNaive(leaves[k:]))
}

// Path is RFC 6962 §2.1.1 PATH(m, D[n]): audit path for leaf m in the tree
// of the first n leaves, listed from the leaf upwards.
func (t *Tree) Path(m, n int64) []Hash { return t.path(m, 0, n) }

func (t *Tree) path(m, lo, hi int64) []Hash {
	n := hi - lo
	if n == 1 {
		return nil
	}
	k := largestPow2Below(n)
	if m < k {
		return append(t.path(m, lo, lo+k), t.MTHRange(lo+k, hi))
	}
	return append(t.path(m-k, lo+k, hi), t.MTHRange(lo, lo+k))
}

// Proof is RFC 6962 §2.1.2 PROOF(m, D[n]): consistency proof between the
// first m leaves and the first n leaves, 0 < m <= n, leaf-side first.
func (t *Tree) Proof(m, n int64) []Hash { return t.subproof(m, 0, n, true) }

func (t *Tree) subproof(m, lo, hi int64, b bool) []Hash {
	n := hi - lo
	if m == n {
		if b {
			return nil
		}
		return []Hash{t.MTHRange(lo, hi)}
	}
	k := largestPow2Below(n)
	if m <= k {
		return append(t.subproof(m, lo, lo+k, b), t.MTHRange(lo+k, hi))
	}
	return append(t.subproof(m-k, lo+k, hi, false), t.MTHRange(lo, lo+k))
}

// VerifyInclusion is RFC 9162 §2.1.3.2: does path prove that leaf (hash)
// is leaf number index of the tree of size n with the given root?
func VerifyInclusion(path []Hash, n, index int64, leaf, root Hash) bool {
	if index < 0 || n <= 0 || index >= n {
		return false
	}
	fn, sn := uint64(index), uint64(n-1)
	r := leaf
	for _, p := range path {
		if sn == 0 {
			return false
		}
		if fn&1 == 1 || fn == sn {
			r = NodeHash(p, r)
			if fn&1 == 0 {
				for fn&1 == 0 && fn != 0 {
					fn >>= 1
					sn >>= 1
				}
			}
		} else {
			r = NodeHash(r, p)
		}
		fn >>= 1
		sn >>= 1
	}
	return sn == 0 && r == root
}

// VerifyConsistency is RFC 9162 §2.1.4.2: does proof show that the tree of
// size m with root oldRoot is a prefix of the tree of size n with newRoot?
// Both sizes must be positive with m <= n.
func VerifyConsistency(proof []Hash, m, n int64, oldRoot, newRoot Hash) bool {
	if m <= 0 || n <= 0 || m > n {
		return false
	}
	if m == n {
		return len(proof) == 0 && oldRoot == newRoot
	}
	if len(proof) == 0 {
		return false
	}
	path := proof
	// If first is an exact power of two, prepend first_hash.
	if m&(m-1) == 0 {
		path = append([]Hash{oldRoot}, proof...)
	}
	fn, sn := uint64(m-1), uint64(n-1)
	for fn&1 == 1 {
		fn >>= 1
		sn >>= 1
	}
	fr, sr := path[0], path[0]
	for _, c := range path[1:] {
		if sn == 0 {
			return false
		}
		if fn&1 == 1 || fn == sn {
			fr = NodeHash(c, fr)
			sr = NodeHash(c, sr)
			if fn&1 == 0 {
				for fn&1 == 0 && fn != 0 {
					fn >>= 1
					sn >>= 1
				}
			}
		} else {
			sr = NodeHash(sr, c)
		}
		fn >>= 1
		sn >>= 1
	}
	return fr == oldRoot && sr == newRoot && sn == 0
}

// StoredCount is the documented number of stored hashes for n records:
// every complete subtree at every level, i.e. sum over levels of n>>level
// = 2n - popcount(n).
func StoredCount(n int64) int64 { return 2*n - int64(bits.OnesCount64(uint64(n))) }

// StoredIndex is the position of the hash of complete subtree (level,
// offset) in the dense store: hashes are stored in the order they become
// computable, i.e. subtree (L,o) is written when record r=(o+1)<<L - 1 is
// appended, after the r records before it contributed StoredCount(r)
// hashes, and as the L-th hash (0-based) written for record r.
func StoredIndex(level int, offset int64) int64 {
	r := (offset+1)<<uint(level) - 1
	return StoredCount(r) + int64(level)
}

// StoredCoord inverts StoredIndex by search over records (small trees) –
// deliberately naive.
func StoredCoord(index int64) (level int, offset int64) {
	// find record r with StoredCount(r) <= index < StoredCount(r+1)
	lo, hi := int64(0), index+1
	for lo < hi {
		mid := lo + (hi-lo+1)/2
		if StoredCount(mid) <= index {
			lo = mid
		} else {
			hi = mid - 1
		}
	}
	r := lo
	level = int(index - StoredCount(r))
	offset = (r+1)>>uint(level) - 1
	return
}

// StoredHash is the true stored hash at a dense-store position.
func (t *Tree) StoredHash(index int64) Hash {
	l, o := StoredCoord(index)
	return t.Sub(l, o)
}

// TileData is the true content of the tile with height h, tile level L,
// number N and width W: W consecutive hashes at tree level h*L starting at
// offset N<<h.
func (t *Tree) TileData(h, L int, N int64, W int) []byte {
	out := make([]byte, 0, W*32)
	for i := 0; i < W; i++ {
		hh := t.Sub(h*L, N<<uint(h)+int64(i))
		out = append(out, hh[:]...)
	}
	return out
}
