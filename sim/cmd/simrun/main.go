// Command simrun is the single binary behind /verif/check: driver ("check"),
// worker, replay and determinism self-test.
package main

import (
	"encoding/json"
	"flag"
	"fmt"
	"os"
	"os/exec"
	"path/filepath"
	"runtime"
	"runtime/pprof"
	"sort"
	"strconv"
	"strings"
	"sync"
	"time"

	"verif/sim/choice"
	"verif/sim/core"
	_ "verif/sim/props"
)

// verifDir is where known_findings.json, evidence/ and replays/ live: /verif, or the snapshot the check
// script was started from (VERIF_DIR is set by the script).
var verifDir = func() string {
	if d := os.Getenv("VERIF_DIR"); d != "" {
		return d
	}
	return "/verif"
}()

func main() {
	if len(os.Args) < 2 {
		fmt.Fprintln(os.Stderr, "usage: simrun check|worker|replay|selftest ...")
		os.Exit(2)
	}
	cleanup := ensureScratch()
	scratchCleanup = cleanup
	exit := func(code int) {
		cleanup()
		os.Exit(code)
	}
	_ = exit
	defer cleanup()
	switch os.Args[1] {
	case "check":
		exit(cmdCheck(os.Args[2:]))
	case "worker":
		exit(cmdWorker(os.Args[2:]))
	case "replay":
		exit(cmdReplay(os.Args[2:]))
	case "selftest":
		exit(cmdSelftest(os.Args[2:]))
	case "digest":
		exit(cmdDigest(os.Args[2:]))
	case "runtape":
		exit(cmdRunTape(os.Args[2:]))
	}
	fmt.Fprintln(os.Stderr, "unknown subcommand", os.Args[1])
	os.Exit(2)
}

// ---------- replay file ----------

type ReplayFile struct {
	Property  string            `json:"property"`
	Entry     string            `json:"entry"`
	Mode      string            `json:"mode"` // explore | sweep
	Seed      uint64            `json:"seed"`
	RunSeed   uint64            `json:"run_seed"`
	Tape      []uint64          `json:"tape"`
	TapeOrig  int               `json:"tape_len_before_shrinking"`
	Shrink    int               `json:"shrink_executions"`
	Violation *core.Violation   `json:"violation"`
	Faults    map[string]int    `json:"faults_fired"`
	Trace     []string          `json:"trace"`
	Sample    interface{}       `json:"case"`
	Env       map[string]string `json:"env,omitempty"`
	// Crash is set when the run kills the process (Go fatal error in the code under test): the run is
	// re-executed from RunSeed (explore) or Tape (sweep) in a child process and the crash summary compared.
	Crash     bool `json:"crash,omitempty"`
	CrashTape bool `json:"crash_uses_tape,omitempty"`
	// Prelude: runs of the same property that are executed first, in the same process, before Tape.
	// Present when the violation depends on state that earlier runs leave in the process (a package-level
	// cache or pool in the code under test): the run alone does not show it, the sequence does.
	Prelude []PreludeRun `json:"prelude,omitempty"`
}

// PreludeRun is one earlier run of a replayable sequence.
type PreludeRun struct {
	Entry string   `json:"entry"`
	Tape  []uint64 `json:"tape"`
}

type inflightRec struct {
	Entry   string   `json:"entry"`
	Seed    uint64   `json:"seed"`
	Tape    []uint64 `json:"tape,omitempty"`
	HasTape bool     `json:"has_tape"`
}

// crashRun executes one run in a child process and, if the child dies with a Go fatal error or an
// unrecovered panic, returns a deterministic summary of it (error line and frames of the code under test).
func crashRun(prop, entry string, quick bool, seed uint64, tape []uint64, useTape bool) (crashed bool, summary string, frames []string) {
	self, _ := os.Executable()
	args := []string{"runtape", "-prop", prop, "-entry", entry, fmt.Sprintf("-quick=%v", quick)}
	if useTape {
		f, err := os.CreateTemp("", "simrun-tape-")
		if err != nil {
			return false, "", nil
		}
		defer os.Remove(f.Name())
		b, _ := json.Marshal(tape)
		f.Write(b)
		f.Close()
		args = append(args, "-tapefile", f.Name())
	} else {
		args = append(args, "-seed", fmt.Sprint(seed))
	}
	cmd := exec.Command(self, args...)
	env := []string{}
	for _, kv := range os.Environ() {
		if !strings.HasPrefix(kv, "SIMRUN_RACELOG=") && !strings.HasPrefix(kv, "GORACE=") {
			env = append(env, kv)
		}
	}
	cmd.Env = append(env, "GOTRACEBACK=single")
	out, err := cmd.CombinedOutput()
	if err == nil || strings.Contains(string(out), "TAPERESULT ") || strings.Contains(string(out), "HARNESS: watchdog") {
		return false, "", nil
	}
	lines := strings.Split(string(out), "\n")
	for _, l := range lines {
		if summary == "" && (strings.HasPrefix(l, "fatal error:") || strings.HasPrefix(l, "panic:")) {
			summary = strings.TrimSpace(l)
		}
		if strings.HasPrefix(l, "golang.org/x/mod/") {
			fn := l
			if i := strings.LastIndex(fn, "("); i >= 0 {
				fn = fn[:i]
			}
			if len(frames) == 0 || frames[len(frames)-1] != fn {
				if len(frames) < 6 {
					frames = append(frames, fn)
				}
			}
		}
	}
	if summary == "" || len(frames) == 0 {
		// no frame of the code under test on the crashing stack: the harness itself failed; that is
		// trouble (exit 2), never a verdict about the code under test
		return false, "", nil
	}
	return true, summary, frames
}

func violationKey(v *core.Violation) string { return v.Property + "|" + v.Oracle + "|" + v.Signature }

// ---------- worker ----------

type ShardOut struct {
	Evaluations int             `json:"evaluations"`
	PerEntry    map[string]int  `json:"per_entry"`
	NonTrivial  int             `json:"nontrivial"`
	Sigs        []uint64        `json:"sigs"` // signatures of non-trivial runs (deduplicated, capped)
	SigsCapped  bool            `json:"sigs_capped"`
	Faults      map[string]int  `json:"faults"`
	Probes      map[string]int  `json:"probes"`
	Steps       int64           `json:"steps"`
	Events      int64           `json:"events"`
	Samples     []interface{}   `json:"samples"`
	Violations  []string        `json:"violations"` // replay file paths
	SweepDone   map[string]bool `json:"sweep_done"`
	SweepCases  map[string]int  `json:"sweep_cases"`
	ExploreRuns int             `json:"explore_runs"`
	// violations seen in a worker that their tape alone does not reproduce in a fresh process; never
	// reported as violations; if no reproducible violation exists either, the check ends with exit 2
	Unreproducible []string `json:"unreproducible,omitempty"`
	Seeds          int      `json:"seeds"`
	WallS          float64  `json:"wall_s"`
	SweepWallS     float64  `json:"sweep_wall_s"`
	ExploreWallS   float64  `json:"explore_wall_s"`
	Harness        string   `json:"harness_error,omitempty"`
}

const sigCap = 400000

var watchdog *time.Timer

func kickWatchdog(what string) {
	if watchdog != nil {
		watchdog.Stop()
	}
	watchdog = time.AfterFunc(120*time.Second, func() {
		fmt.Fprintf(os.Stderr, "HARNESS: watchdog: a single simulated run did not finish within 120s of real time (%s)\n", what)
		os.Exit(2)
	})
}

func cmdWorker(args []string) int {
	fs := flag.NewFlagSet("worker", flag.ExitOnError)
	propID := fs.String("prop", "", "")
	quick := fs.Bool("quick", true, "")
	seed := fs.Uint64("seed", 1, "")
	shard := fs.Int("shard", 0, "")
	nshards := fs.Int("nshards", 1, "")
	budget := fs.Duration("budget", 20*time.Second, "")
	sweepBudget := fs.Duration("sweepbudget", 10*time.Second, "")
	out := fs.String("out", "", "")
	replayDir := fs.String("replaydir", "", "")
	inflightPath := fs.String("inflight", "", "")
	fs.Parse(args)
	ensureRaceLog()
	p := core.Lookup(*propID)
	if p == nil {
		fmt.Fprintln(os.Stderr, "HARNESS: unknown property", *propID)
		return 2
	}
	core.SetTier(*quick)
	start := time.Now()
	if pf := os.Getenv("SIMRUN_CPUPROFILE"); pf != "" {
		if f, err := os.Create(pf); err == nil {
			pprof.StartCPUProfile(f)
			defer pprof.StopCPUProfile()
		}
	}
	// Before every run the worker notes what it is about to execute, so that if the code under test
	// kills the process (stack overflow, concurrent map access: fatal errors cannot be recovered) the
	// driver can re-execute exactly that run in a fresh process and report the crash with a replay file.
	var inflightFile *os.File
	if *inflightPath != "" {
		inflightFile, _ = os.OpenFile(*inflightPath, os.O_CREATE|os.O_RDWR|os.O_TRUNC, 0o644)
	}
	noteInflight := func(entry string, seed uint64, tape []uint64) {
		if inflightFile == nil {
			return
		}
		rec, _ := json.Marshal(inflightRec{Entry: entry, Seed: seed, Tape: tape, HasTape: tape != nil})
		rec = append(rec, '\n')
		for len(rec) < 256 {
			rec = append(rec, ' ')
		}
		inflightFile.WriteAt(rec, 0)
		if len(rec) > 256 {
			inflightFile.Truncate(int64(len(rec)))
		}
	}
	so := &ShardOut{PerEntry: map[string]int{}, Faults: map[string]int{}, Probes: map[string]int{}, SweepDone: map[string]bool{}, SweepCases: map[string]int{}}
	sigs := map[uint64]bool{}
	seenViol := map[string]bool{}
	abandoned := false
	var recent []PreludeRun // the last runs of this worker process, oldest first
	remember := func(entry string, tape []uint64) {
		recent = append(recent, PreludeRun{Entry: entry, Tape: tape})
		if len(recent) > 64 {
			recent = recent[1:]
		}
	}
	var unreproducible []string
	var knownOpen []KnownFinding
	if ks, err := loadKnown(); err == nil {
		for _, k := range ks {
			if k.Status == "open" {
				knownOpen = append(knownOpen, k)
			}
		}
	}
	absorb := func(entry string, r *core.Result) {
		so.Evaluations++
		so.PerEntry[entry]++
		for k, v := range r.Faults {
			so.Faults[k] += v
		}
		for k, v := range r.Probes {
			so.Probes[k] += v
		}
		so.Steps += int64(r.Steps)
		so.Events += int64(r.Events)
		if !r.Trivial {
			so.NonTrivial++
			if len(sigs) < sigCap {
				sigs[r.Sig] = true
			} else {
				so.SigsCapped = true
			}
		}
		if r.Sample != nil && (len(so.Samples) < 2 || (len(so.Samples) < 4 && len(r.Faults) > 0 && so.Evaluations%97 == 0)) {
			so.Samples = append(so.Samples, map[string]interface{}{"entry": entry, "case": r.Sample, "trace_head": head(r.Trace, 12)})
		}
	}
	handleViolation := func(mode string, e *core.Entry, runSeed uint64, tape []uint64, r *core.Result) {
		key := violationKey(r.Violation)
		if seenViol[key] || len(so.Violations) >= 6 || len(unreproducible) >= 8 {
			return
		}
		seenViol[key] = true
		core.SetReplaying(true) // re-executions sample uncontrolled nondeterminism (C16's map order) more often
		defer core.SetReplaying(false)
		orig := r.Violation
		isRace := orig.Oracle == "data-race"
		// runTape executes a tape and returns its result and the tape it consumed. Race reports are
		// issued once per process, so race violations are re-executed in fresh processes.
		runTape := func(c []uint64) (*core.Result, []uint64) {
			if isRace {
				return subprocRun(p.ID, e.Name, c)
			}
			src := choice.Replay(c)
			kickWatchdog("shrinking " + e.Name)
			noteInflight(e.Name, 0, append([]uint64{}, c...))
			rr := runEntry(p, e, src)
			return rr, src.Tape()
		}
		test := func(c []uint64) (bool, []uint64) {
			rr, used := runTape(c)
			if rr != nil && rr.Violation != nil && rr.Violation.Oracle == orig.Oracle && rr.Violation.Signature == orig.Signature {
				return true, used
			}
			return false, nil
		}
		maxExec, maxTime := 3000, 40*time.Second
		if core.Quick() {
			maxTime = 20 * time.Second
		}
		if isRace {
			maxExec, maxTime = 120, 60*time.Second
		}
		var best []uint64
		var execs int
		var final *core.Result
		var prelude []PreludeRun
		isKnown := false
		for _, k := range knownOpen {
			if k.Property == orig.Property && k.Signature == orig.Signature && (k.Oracle == "" || k.Oracle == orig.Oracle) {
				isKnown = true
			}
		}
		if isKnown {
			// a listed finding: recorded as found (the driver prints KNOWN-FINDING), not minimised again
			best, final = tape, r
		} else if r.Abandoned {
			// the run left code under test spinning: every re-execution costs the full time-out and
			// another spinning goroutine, so the tape is reported unshrunk
			best, final = tape, r
			abandoned = true
		} else {
			best, execs = choice.Shrink(tape, maxExec, maxTime, test)
			final, _ = runTape(best)
		}
		if final == nil || final.Violation == nil {
			best = tape
			final, _ = runTape(best)
			if final == nil || final.Violation == nil {
				final = nil
			}
		}
		// A run must be a function of its tape alone. If the code under test keeps state in the process
		// (a package-level pool or cache that a change introduced), the outcome in this worker can depend on
		// what earlier runs left behind, and a tape minimised here need not fail in a fresh process.
		// So the minimised tape is executed once in a fresh process; if the outcome differs, minimisation is
		// redone from the original tape with every candidate in a process of its own.
		if !isRace && !isKnown && !r.Abandoned {
			same := func(a, b *core.Result) bool {
				return a != nil && b != nil && a.Violation != nil && b.Violation != nil && *a.Violation == *b.Violation
			}
			var fresh *core.Result
			if final != nil {
				fresh, _ = subprocRun(p.ID, e.Name, best)
			}
			if !same(fresh, final) {
				so.Probes["minimised-in-fresh-processes"]++
				isoTest := func(c []uint64) (bool, []uint64) {
					kickWatchdog("shrinking in fresh processes " + e.Name)
					rr, used := subprocRun(p.ID, e.Name, c)
					if rr != nil && rr.Violation != nil && rr.Violation.Oracle == orig.Oracle && rr.Violation.Signature == orig.Signature {
						return true, used
					}
					return false, nil
				}
				if ok, used := isoTest(tape); ok {
					best, execs = choice.Shrink(used, 400, maxTime, isoTest)
					final, _ = subprocRun(p.ID, e.Name, best)
					again, _ := subprocRun(p.ID, e.Name, best)
					if !same(final, again) {
						final = nil
					}
				} else {
					final = nil
					// The run alone does not show it in a fresh process. Does the sequence of runs this
					// worker executed before it? Try the last 1, 2, 4, ... runs as a prelude, then cut the
					// prelude down from the front while the violation still shows.
					matches := func(rr *core.Result) bool {
						return rr != nil && rr.Violation != nil && rr.Violation.Oracle == orig.Oracle && rr.Violation.Signature == orig.Signature
					}
					var ks []int
					for k := 1; k < len(recent); k *= 2 {
						ks = append(ks, k)
					}
					if len(recent) > 0 {
						ks = append(ks, len(recent))
					}
					for _, k := range ks {
						kickWatchdog("looking for a prelude " + e.Name)
						pre := append([]PreludeRun(nil), recent[len(recent)-k:]...)
						if rr, _ := subprocRunSeq(p.ID, e.Name, tape, pre); matches(rr) {
							for len(pre) > 1 {
								if rr2, _ := subprocRunSeq(p.ID, e.Name, tape, pre[1:]); matches(rr2) {
									pre = pre[1:]
								} else {
									break
								}
							}
							// drop prelude runs from the middle too, one at a time
							for i := len(pre) - 2; i >= 0 && len(pre) > 1; i-- {
								cand := append(append([]PreludeRun(nil), pre[:i]...), pre[i+1:]...)
								if rr2, _ := subprocRunSeq(p.ID, e.Name, tape, cand); matches(rr2) {
									pre = cand
								}
							}
							f1, _ := subprocRunSeq(p.ID, e.Name, tape, pre)
							f2, _ := subprocRunSeq(p.ID, e.Name, tape, pre)
							if same(f1, f2) {
								final, best, prelude = f1, tape, pre
								so.Probes["violation-needs-earlier-runs-in-the-process"]++
							}
							break
						}
					}
				}
			}
		}
		if final == nil || final.Violation == nil {
			// Not reportable: there is no replay file that reproduces it. Another run may show the same
			// violation from its own tape alone, so the key is released; if none does, the worker ends
			// with a harness error (exit 2), never with a verdict.
			unreproducible = append(unreproducible, key)
			delete(seenViol, key)
			so.Probes["violation-not-reproducible-from-its-tape-alone"]++
			return
		}
		rf := &ReplayFile{Property: p.ID, Entry: e.Name, Mode: mode, Seed: *seed, RunSeed: runSeed, Tape: best, TapeOrig: len(tape), Shrink: execs,
			Violation: final.Violation, Faults: final.Faults, Trace: final.Trace, Sample: final.Sample, Env: core.ReplayEnv(), Prelude: prelude}
		name := fmt.Sprintf("%s-%016x.json", p.ID, choice.Mix(choice.HashTape(best), choice.MixString(e.Name)))
		path := filepath.Join(*replayDir, name)
		b, _ := json.MarshalIndent(rf, "", " ")
		// several workers can find the same minimal tape: write atomically so that the file is always whole
		tmp := fmt.Sprintf("%s.%d.tmp", path, os.Getpid())
		if err := os.WriteFile(tmp, b, 0o644); err != nil {
			so.Harness = "cannot write replay file: " + err.Error()
			return
		}
		if err := os.Rename(tmp, path); err != nil {
			so.Harness = "cannot write replay file: " + err.Error()
			return
		}
		so.Violations = append(so.Violations, path)
	}

	// sweeps first
	sweepStart := time.Now()
	for _, sw := range p.Sweeps {
		e := p.FindEntry(sw.Entry)
		deadline := sweepStart.Add(*sweepBudget)
		n := 0
		complete := sw.Enumerate(*quick, *seed, *shard, *nshards, func(tape []uint64) bool {
			if abandoned || n%64 == 0 && time.Now().After(deadline) {
				return false
			}
			n++
			kickWatchdog("sweep " + sw.Name)
			noteInflight(sw.Entry, 0, tape)
			src := choice.Replay(tape)
			r := runEntry(p, e, src)
			absorb(sw.Entry, r)
			if r.Violation != nil {
				handleViolation("sweep", e, 0, src.Tape(), r)
			}
			remember(sw.Entry, src.Tape())
			return true
		})
		so.SweepDone[sw.Name] = complete
		so.SweepCases[sw.Name] = n
	}
	so.SweepWallS = time.Since(sweepStart).Seconds()

	// exploration
	exploreStart := time.Now()
	deadline := start.Add(*budget)
	if len(p.Explore) > 0 {
		for i := 0; ; i++ {
			if abandoned || time.Now().After(deadline) {
				break
			}
			name := p.Explore[i%len(p.Explore)]
			e := p.FindEntry(name)
			runSeed := choice.Mix(*seed, choice.MixString(p.ID+"/"+name), uint64(*shard), uint64(i))
			src := choice.New(runSeed)
			noteInflight(name, runSeed, nil)
			kickWatchdog("explore " + name + " seed " + strconv.FormatUint(runSeed, 10))
			r := runEntry(p, e, src)
			so.ExploreRuns++
			so.Seeds++
			absorb(name, r)
			if r.Violation != nil {
				handleViolation("explore", e, runSeed, src.Tape(), r)
				if len(so.Violations) >= 6 {
					break
				}
			}
			remember(name, src.Tape())
		}
	}
	if watchdog != nil {
		watchdog.Stop()
	}
	so.ExploreWallS = time.Since(exploreStart).Seconds()
	for s := range sigs {
		so.Sigs = append(so.Sigs, s)
	}
	sort.Slice(so.Sigs, func(i, j int) bool { return so.Sigs[i] < so.Sigs[j] })
	so.WallS = time.Since(start).Seconds()
	if h := core.HarnessError(); h != "" && so.Harness == "" {
		so.Harness = h
	}
	so.Unreproducible = unreproducible
	b, _ := json.Marshal(so)
	if err := os.WriteFile(*out, b, 0o644); err != nil {
		fmt.Fprintln(os.Stderr, "HARNESS:", err)
		return 2
	}
	if so.Harness != "" {
		fmt.Fprintln(os.Stderr, "HARNESS:", so.Harness)
		return 2
	}
	return 0
}

func head(s []string, n int) []string {
	if len(s) > n {
		return s[:n]
	}
	return s
}

// ---------- replay ----------

func cmdReplay(args []string) int {
	if len(args) < 1 {
		fmt.Fprintln(os.Stderr, "usage: simrun replay <file> [-v]")
		return 2
	}
	b, err := os.ReadFile(args[0])
	if err != nil {
		fmt.Fprintln(os.Stderr, "HARNESS:", err)
		return 2
	}
	var rf ReplayFile
	if err := json.Unmarshal(b, &rf); err != nil {
		fmt.Fprintln(os.Stderr, "HARNESS: bad replay file:", err)
		return 2
	}
	if rf.Violation != nil && rf.Violation.Oracle == "data-race" && !raceEnabled {
		fmt.Fprintln(os.Stderr, "HARNESS: this replay file records a data race; it needs the -race build (use /verif/check C14 --replay)")
		return 2
	}
	if rf.Crash {
		core.ApplyReplayEnv(rf.Env)
		crashed, summary, frames := crashRun(rf.Property, rf.Entry, core.Quick(), rf.RunSeed, rf.Tape, rf.CrashTape)
		if !crashed {
			fmt.Println("REPLAY: no violation (the run no longer kills the process)")
			return 0
		}
		v := crashViolation(rf.Property, summary, frames)
		fmt.Printf("REPLAY-VIOLATION %s\n", mustJSON(v))
		if rf.Violation != nil && *rf.Violation == *v {
			fmt.Println("REPLAY: same violation as recorded")
		} else {
			fmt.Println("REPLAY: violation differs from the recorded one")
		}
		fmt.Printf("VIOLATION property=%s replay=%s\n", rf.Property, args[0])
		return 1
	}
	ensureRaceLog()
	p := core.Lookup(rf.Property)
	if p == nil {
		fmt.Fprintln(os.Stderr, "HARNESS: unknown property", rf.Property)
		return 2
	}
	e := p.FindEntry(rf.Entry)
	if e == nil {
		fmt.Fprintln(os.Stderr, "HARNESS: unknown entry", rf.Entry)
		return 2
	}
	core.ApplyReplayEnv(rf.Env)
	core.SetReplaying(true)
	runPrelude(p, rf.Prelude)
	kickWatchdog("replay")
	r := runEntry(p, e, choice.Replay(rf.Tape))
	verbose := len(args) > 1 && args[1] == "-v"
	if verbose {
		for _, l := range r.Trace {
			fmt.Println("  ", l)
		}
	}
	if r.Violation == nil {
		fmt.Println("REPLAY: no violation")
		return 0
	}
	fmt.Printf("REPLAY-VIOLATION %s\n", mustJSON(r.Violation))
	// A data race is the same violation if the detector reports a race again: which of the racing
	// accesses it names first, and at which line, is not decided by the schedule alone.
	sameRace := rf.Violation != nil && rf.Violation.Oracle == "data-race" && r.Violation.Oracle == "data-race" && rf.Violation.Property == r.Violation.Property
	if rf.Violation != nil && (*rf.Violation == *r.Violation || sameRace) {
		fmt.Println("REPLAY: same violation as recorded")
	} else {
		fmt.Println("REPLAY: violation differs from the recorded one")
	}
	fmt.Printf("VIOLATION property=%s replay=%s\n", rf.Property, args[0])
	return 1
}

func mustJSON(v interface{}) string {
	b, _ := json.Marshal(v)
	return string(b)
}

// ---------- determinism ----------

// cmdDigest runs n seeds of every explore entry of a property and prints one digest line per run.
func cmdDigest(args []string) int {
	fs := flag.NewFlagSet("digest", flag.ExitOnError)
	propID := fs.String("prop", "", "")
	seed := fs.Uint64("seed", 1, "")
	n := fs.Int("n", 40, "")
	quick := fs.Bool("quick", true, "")
	fs.Parse(args)
	p := core.Lookup(*propID)
	if p == nil {
		return 2
	}
	core.SetTier(*quick)
	for _, name := range p.Explore {
		e := p.FindEntry(name)
		for i := 0; i < *n; i++ {
			runSeed := choice.Mix(*seed, choice.MixString(p.ID+"/"+name), 0, uint64(i))
			src := choice.New(runSeed)
			kickWatchdog("digest")
			t0 := time.Now()
			r := runEntry(p, e, src)
			if d := time.Since(t0); d > 200*time.Millisecond && os.Getenv("SIMRUN_SLOW") != "" {
				fmt.Fprintf(os.Stderr, "SLOW run %d: %v\n  %v\n", i, d, r.Sample)
			}
			v := ""
			if r.Violation != nil {
				v = r.Violation.String()
			}
			fmt.Printf("%s %s %d events=%d digest=%016x tape=%016x steps=%d viol=%q\n", p.ID, name, i, r.Events, r.Digest, choice.HashTape(src.Tape()), r.Steps, v)
		}
	}
	return 0
}

// cmdSelftest executes the digest command in fresh processes under several
// GOMAXPROCS values and with parallel copies, and compares outputs.
func cmdSelftest(args []string) int {
	fs := flag.NewFlagSet("selftest", flag.ExitOnError)
	propID := fs.String("prop", "", "")
	seed := fs.Uint64("seed", 1, "")
	n := fs.Int("n", 40, "")
	quick := fs.Bool("quick", true, "")
	fs.Parse(args)
	self, _ := os.Executable()
	type job struct {
		procs string
		out   string
		err   error
	}
	var jobs []*job
	for _, procs := range []string{"1", "4", "16"} {
		jobs = append(jobs, &job{procs: procs})
	}
	// plus 13 parallel copies at GOMAXPROCS=2 to create load
	for i := 0; i < 13; i++ {
		jobs = append(jobs, &job{procs: "2"})
	}
	var wg sync.WaitGroup
	for _, j := range jobs {
		wg.Add(1)
		go func(j *job) {
			defer wg.Done()
			cmd := exec.Command(self, "digest", "-prop", *propID, "-seed", fmt.Sprint(*seed), "-n", fmt.Sprint(*n), fmt.Sprintf("-quick=%v", *quick))
			cmd.Env = append(os.Environ(), "GOMAXPROCS="+j.procs)
			b, err := cmd.Output()
			j.out, j.err = string(b), err
		}(j)
	}
	wg.Wait()
	for i, j := range jobs {
		if j.err != nil {
			fmt.Printf("HARNESS: selftest process %d failed: %v\n", i, j.err)
			return 2
		}
		if j.out != jobs[0].out {
			fmt.Printf("HARNESS: NONDETERMINISM: process %d (GOMAXPROCS=%s) differs from process 0\n", i, j.procs)
			a, b := strings.Split(jobs[0].out, "\n"), strings.Split(j.out, "\n")
			for k := range a {
				if k >= len(b) || a[k] != b[k] {
					fmt.Printf("  first difference at line %d:\n   %s\n   %s\n", k, a[k], func() string {
						if k < len(b) {
							return b[k]
						}
						return "<missing>"
					}())
					break
				}
			}
			return 2
		}
	}
	lines := strings.Count(jobs[0].out, "\n")
	fmt.Printf("selftest %s: %d runs x %d processes (GOMAXPROCS 1,4,16 and 13 parallel at 2) identical event-log digests\n", *propID, lines, len(jobs))
	return 0
}

var _ = runtime.NumCPU

// runEntry executes one run and folds in race-detector reports issued during it.
func runEntry(p *core.Prop, e *core.Entry, src *choice.Src) *core.Result {
	r := e.Run(src)
	absorbRace(p.ID, r)
	return r
}

type tapeResult struct {
	Violation *core.Violation `json:"violation"`
	Used      []uint64        `json:"used"`
	Faults    map[string]int  `json:"faults"`
	Trace     []string        `json:"trace"`
	Sample    interface{}     `json:"sample"`
}

// runPrelude executes earlier runs of a replayable sequence; their outcomes are not judged.
func runPrelude(p *core.Prop, pre []PreludeRun) {
	for _, pr := range pre {
		if pe := p.FindEntry(pr.Entry); pe != nil {
			kickWatchdog("prelude " + pr.Entry)
			runEntry(p, pe, choice.Replay(pr.Tape))
		}
	}
}

// cmdRunTape executes one tape in this (fresh) process and prints the outcome as JSON.
func cmdRunTape(args []string) int {
	fs := flag.NewFlagSet("runtape", flag.ExitOnError)
	propID := fs.String("prop", "", "")
	entry := fs.String("entry", "", "")
	tapeFile := fs.String("tapefile", "", "")
	seed := fs.Uint64("seed", 0, "")
	quick := fs.Bool("quick", true, "")
	replaying := fs.Bool("replaying", false, "")
	preludeFile := fs.String("preludefile", "", "")
	fs.Parse(args)
	ensureRaceLog()
	core.SetReplaying(*replaying)
	p := core.Lookup(*propID)
	if p == nil {
		return 2
	}
	e := p.FindEntry(*entry)
	if e == nil {
		return 2
	}
	core.SetTier(*quick)
	var src *choice.Src
	if *tapeFile != "" {
		b, err := os.ReadFile(*tapeFile)
		if err != nil {
			return 2
		}
		var tape []uint64
		if json.Unmarshal(b, &tape) != nil {
			return 2
		}
		src = choice.Replay(tape)
	} else {
		src = choice.New(*seed)
	}
	if *preludeFile != "" {
		b, err := os.ReadFile(*preludeFile)
		var pre []PreludeRun
		if err != nil || json.Unmarshal(b, &pre) != nil {
			return 2
		}
		runPrelude(p, pre)
	}
	kickWatchdog("runtape")
	r := runEntry(p, e, src)
	out, _ := json.Marshal(tapeResult{Violation: r.Violation, Used: src.Tape(), Faults: r.Faults, Trace: r.Trace, Sample: r.Sample})
	fmt.Println("TAPERESULT " + string(out))
	return 0
}

// subprocRun runs a tape in a fresh process (needed for race violations).
func subprocRun(prop, entry string, tape []uint64) (*core.Result, []uint64) {
	return subprocRunSeq(prop, entry, tape, nil)
}

// subprocRunSeq runs the prelude runs and then tape, all in one fresh process, and returns the outcome of
// the last run.
func subprocRunSeq(prop, entry string, tape []uint64, prelude []PreludeRun) (*core.Result, []uint64) {
	f, err := os.CreateTemp("", "simrun-tape-")
	if err != nil {
		return nil, nil
	}
	defer os.Remove(f.Name())
	b, _ := json.Marshal(tape)
	f.Write(b)
	f.Close()
	self, _ := os.Executable()
	args := []string{"runtape", "-prop", prop, "-entry", entry, "-tapefile", f.Name(), fmt.Sprintf("-quick=%v", core.Quick()), "-replaying"}
	if len(prelude) > 0 {
		pf, err := os.CreateTemp("", "simrun-prelude-")
		if err != nil {
			return nil, nil
		}
		defer os.Remove(pf.Name())
		pb, _ := json.Marshal(prelude)
		pf.Write(pb)
		pf.Close()
		args = append(args, "-preludefile", pf.Name())
	}
	cmd := exec.Command(self, args...)
	env := []string{}
	for _, kv := range os.Environ() {
		if !strings.HasPrefix(kv, "SIMRUN_RACELOG=") && !strings.HasPrefix(kv, "GORACE=") {
			env = append(env, kv)
		}
	}
	cmd.Env = env
	out, err := cmd.Output()
	if err != nil {
		return nil, nil
	}
	for _, line := range strings.Split(string(out), "\n") {
		if strings.HasPrefix(line, "TAPERESULT ") {
			var tr tapeResult
			if json.Unmarshal([]byte(line[len("TAPERESULT "):]), &tr) != nil {
				return nil, nil
			}
			r := core.NewResult()
			r.Violation, r.Trace, r.Sample = tr.Violation, tr.Trace, tr.Sample
			if tr.Faults != nil {
				r.Faults = tr.Faults
			}
			return r, tr.Used
		}
	}
	return nil, nil
}

func crashViolation(prop, summary string, frames []string) *core.Violation {
	where := "(no frame of the code under test on the crashing stack)"
	if len(frames) > 0 {
		where = strings.Join(frames, " <- ")
	}
	return &core.Violation{Property: prop, Oracle: "process-crash", Signature: "process crash: " + summary,
		Detail: fmt.Sprintf("the run kills the process: %s in %s", summary, where)}
}

var scratchCleanup = func() {}

// ensureScratch gives every top-level invocation one private scratch directory (memory-backed if
// possible) that sandboxes are created in; child processes inherit it through SIMRUN_SCRATCH.
// Its name has a fixed length so that path lengths are the same in every process.
func ensureScratch() func() {
	if os.Getenv("SIMRUN_SCRATCH") != "" {
		return func() {}
	}
	base := os.TempDir()
	if st, err := os.Stat("/dev/shm"); err == nil && st.IsDir() {
		base = "/dev/shm"
	}
	dir := fmt.Sprintf("%s/simrun-%010d", base, os.Getpid())
	os.RemoveAll(dir)
	if err := os.MkdirAll(dir, 0o755); err != nil {
		return func() {}
	}
	os.Setenv("SIMRUN_SCRATCH", dir)
	return func() { os.RemoveAll(dir) }
}
