package main

import (
	"fmt"
	"os"
	"os/exec"
	"regexp"
	"sort"
	"strings"

	"verif/sim/core"
)

// Race detector plumbing. In a -race build every subcommand that executes
// simulated runs re-executes itself once with GORACE pointing the detector's
// reports at a private log file; after each run the new part of that file is
// parsed and a report becomes the run's violation (oracle "data-race").
// The detector reports a given pair of stacks only once per process, so
// shrinking and replaying race violations always use fresh processes.

var raceLogPos int64

func ensureRaceLog() {
	if !raceEnabled || os.Getenv("SIMRUN_RACELOG") != "" {
		return
	}
	f, err := os.CreateTemp("", "simrun-race-")
	if err != nil {
		fmt.Fprintln(os.Stderr, "HARNESS:", err)
		os.Exit(2)
	}
	base := f.Name()
	f.Close()
	os.Remove(base)
	self, _ := os.Executable()
	cmd := exec.Command(self, os.Args[1:]...)
	cmd.Env = append(os.Environ(), "SIMRUN_RACELOG="+base, "GORACE=halt_on_error=0 exitcode=0 log_path="+base)
	cmd.Stdin, cmd.Stdout, cmd.Stderr = os.Stdin, os.Stdout, os.Stderr
	err = cmd.Run()
	// remove the log(s)
	if m, _ := findRaceLogs(base); len(m) > 0 {
		for _, p := range m {
			os.Remove(p)
		}
	}
	scratchCleanup()
	if err != nil {
		if ee, ok := err.(*exec.ExitError); ok {
			os.Exit(ee.ExitCode())
		}
		fmt.Fprintln(os.Stderr, "HARNESS:", err)
		os.Exit(2)
	}
	os.Exit(0)
}

func findRaceLogs(base string) ([]string, error) {
	dir := base[:strings.LastIndex(base, "/")]
	ents, err := os.ReadDir(dir)
	if err != nil {
		return nil, err
	}
	var out []string
	for _, e := range ents {
		p := dir + "/" + e.Name()
		if strings.HasPrefix(p, base+".") {
			out = append(out, p)
		}
	}
	return out, nil
}

var (
	reAccess = regexp.MustCompile(`(?m)^(Previous )?(read|write|Read|Write|atomic read|atomic write|Atomic read|Atomic write) at 0x[0-9a-f]+ by (?:main goroutine|goroutine [0-9]+):\n  (\S+?)\(\)\n\s+(\S+?):([0-9]+)`)
)

// absorbRace looks for race reports written since the last call and, if any,
// records the first as the violation of res.
func absorbRace(prop string, res *core.Result) {
	if !raceEnabled {
		return
	}
	base := os.Getenv("SIMRUN_RACELOG")
	if base == "" {
		return
	}
	path := fmt.Sprintf("%s.%d", base, os.Getpid())
	b, err := os.ReadFile(path)
	if err != nil || int64(len(b)) <= raceLogPos {
		return
	}
	report := string(b[raceLogPos:])
	raceLogPos = int64(len(b))
	if !strings.Contains(report, "DATA RACE") {
		return
	}
	ms := reAccess.FindAllStringSubmatch(report, 2)
	var parts, funcs []string
	for _, m := range ms {
		kind := strings.ToLower(m[2])
		file := m[4]
		if i := strings.LastIndex(file, "/"); i >= 0 {
			file = file[i+1:]
		}
		parts = append(parts, fmt.Sprintf("%s in %s (%s:%s)", kind, m[3], file, m[5]))
		funcs = append(funcs, m[3])
	}
	sort.Strings(parts)
	sort.Strings(funcs)
	sig := "data race: " + strings.Join(funcs, " / ")
	detail := "race detector report: " + strings.Join(parts, " vs ")
	if len(parts) == 0 {
		sig, detail = "data race", "race detector report (unparsed): "+firstN(report, 600)
	}
	if res.Violation == nil {
		res.Fail(prop, "data-race", sig, "%s", detail)
	}
}

func firstN(s string, n int) string {
	if len(s) > n {
		return s[:n]
	}
	return s
}
