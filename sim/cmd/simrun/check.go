package main

import (
	"encoding/json"
	"flag"
	"fmt"
	"os"
	"os/exec"
	"path/filepath"
	"sort"
	"strconv"
	"strings"
	"sync"
	"time"

	"verif/sim/core"
)

type KnownFinding struct {
	Property  string `json:"property"`
	Status    string `json:"status"` // "open" or "fixed"
	Signature string `json:"signature"`
	Oracle    string `json:"oracle,omitempty"`
	Commit    string `json:"commit,omitempty"`
	What      string `json:"what"`
}

func loadKnown() ([]KnownFinding, error) {
	b, err := os.ReadFile(filepath.Join(verifDir, "known_findings.json"))
	if err != nil {
		if os.IsNotExist(err) {
			return nil, nil
		}
		return nil, err
	}
	var k struct {
		Findings []KnownFinding `json:"findings"`
	}
	if err := json.Unmarshal(b, &k); err != nil {
		return nil, err
	}
	return k.Findings, nil
}

func envInt(name string, def int) int {
	if v := os.Getenv(name); v != "" {
		if n, err := strconv.Atoi(v); err == nil {
			return n
		}
	}
	return def
}

func cmdCheck(args []string) int {
	fs := flag.NewFlagSet("check", flag.ExitOnError)
	propID := fs.String("prop", "", "")
	tier := fs.String("tier", "quick", "")
	fs.Parse(args)
	if t := os.Getenv("VERIF_TIER"); t == "quick" || t == "thorough" {
		// the command line decides; VERIF_TIER is only a default when the tier is not given explicitly
		_ = t
	}
	p := core.Lookup(*propID)
	if p == nil {
		fmt.Println("HARNESS: unknown property", *propID)
		return 2
	}
	quick := *tier != "thorough"
	seed := uint64(1)
	if v := os.Getenv("VERIF_SEED"); v != "" {
		if n, err := strconv.ParseUint(v, 10, 64); err == nil {
			seed = n
		} else if n, err := strconv.ParseInt(v, 10, 64); err == nil {
			seed = uint64(n)
		}
	}
	workers := envInt("VERIF_WORKERS", 16)
	budgetS := envInt("VERIF_BUDGET_S", 22)
	sweepS := envInt("VERIF_SWEEP_S", 10)
	if !quick {
		budgetS = envInt("VERIF_BUDGET_S", 600)
		sweepS = envInt("VERIF_SWEEP_S", 300)
	}
	start := time.Now()
	self, _ := os.Executable()
	tmp, err := os.MkdirTemp("", "simrun-shards-")
	if err != nil {
		fmt.Println("HARNESS:", err)
		return 2
	}
	defer os.RemoveAll(tmp)
	// VERIF_OUT (development aid) redirects evidence and replay files, e.g. when a seeded change is tried
	outDir := verifDir
	if d := os.Getenv("VERIF_OUT"); d != "" {
		outDir = d
	}
	replayDir := filepath.Join(outDir, "replays")
	os.MkdirAll(replayDir, 0o755)
	os.MkdirAll(filepath.Join(outDir, "evidence"), 0o755)

	selftestNote := ""
	if !quick || os.Getenv("VERIF_SELFTEST") == "1" {
		cmd := exec.Command(self, "selftest", "-prop", p.ID, "-seed", fmt.Sprint(seed), "-n", "40", fmt.Sprintf("-quick=%v", quick))
		out, err := cmd.CombinedOutput()
		fmt.Print(string(out))
		if err != nil {
			fmt.Println("HARNESS: determinism self-test failed; no violation is reported from a nondeterministic simulator")
			return 2
		}
		selftestNote = strings.TrimSpace(string(out))
	}

	type wres struct {
		out     ShardOut
		err     error
		code    int
		log     string
		crashed bool
	}
	results := make([]wres, workers)
	var wg sync.WaitGroup
	for i := 0; i < workers; i++ {
		wg.Add(1)
		go func(i int) {
			defer wg.Done()
			outFile := filepath.Join(tmp, fmt.Sprintf("shard%d.json", i))
			cmd := exec.Command(self, "worker", "-prop", p.ID, fmt.Sprintf("-quick=%v", quick), "-seed", fmt.Sprint(seed),
				"-shard", fmt.Sprint(i), "-nshards", fmt.Sprint(workers), "-budget", fmt.Sprintf("%ds", budgetS), "-sweepbudget", fmt.Sprintf("%ds", sweepS),
				"-out", outFile, "-replaydir", replayDir, "-inflight", outFile+".inflight")
			cmd.Env = append(os.Environ(), "GOMAXPROCS=2")
			b, err := cmd.CombinedOutput()
			results[i].log = string(b)
			if err != nil {
				results[i].err = err
				if ee, ok := err.(*exec.ExitError); ok {
					results[i].code = ee.ExitCode()
				} else {
					results[i].code = 2
				}
			}
			if data, rerr := os.ReadFile(outFile); rerr == nil {
				json.Unmarshal(data, &results[i].out)
			} else if results[i].err == nil {
				results[i].err = rerr
				results[i].code = 2
			} else if strings.Contains(results[i].log, "fatal error:") || strings.Contains(results[i].log, "panic:") {
				// the worker died in the middle of a run: was it the code under test?
				if rec, ok := readInflight(outFile + ".inflight"); ok {
					crashed, summary, frames := crashRun(p.ID, rec.Entry, quick, rec.Seed, rec.Tape, rec.HasTape)
					if crashed {
						v := crashViolation(p.ID, summary, frames)
						rf := &ReplayFile{Property: p.ID, Entry: rec.Entry, Mode: "crash", Seed: seed, RunSeed: rec.Seed, Tape: rec.Tape, Crash: true, CrashTape: rec.HasTape,
							Violation: v, Env: map[string]string{"tier": map[bool]string{true: "quick", false: "thorough"}[quick]}}
						name := fmt.Sprintf("%s-crash-%016x.json", p.ID, rec.Seed^uint64(len(rec.Tape)))
						b, _ := json.MarshalIndent(rf, "", " ")
						if os.WriteFile(filepath.Join(replayDir, name), b, 0o644) == nil {
							results[i].out.Violations = append(results[i].out.Violations, filepath.Join(replayDir, name))
							results[i].err = nil
							results[i].crashed = true
						}
					}
				}
			}
		}(i)
	}
	wg.Wait()

	// merge
	var tot ShardOut
	tot.PerEntry, tot.Faults, tot.Probes, tot.SweepCases = map[string]int{}, map[string]int{}, map[string]int{}, map[string]int{}
	sweepDone := map[string]bool{}
	for _, sw := range p.Sweeps {
		sweepDone[sw.Name] = true
	}
	sigs := map[uint64]bool{}
	var replays, unrepro []string
	harness := ""
	var maxWall, sumExploreWall float64
	for i, r := range results {
		if r.err != nil || r.out.Harness != "" {
			harness = fmt.Sprintf("worker %d: %v %s\n%s", i, r.err, r.out.Harness, tail(r.log, 30))
		}
		o := r.out
		tot.Evaluations += o.Evaluations
		tot.NonTrivial += o.NonTrivial
		tot.Steps += o.Steps
		tot.Events += o.Events
		tot.ExploreRuns += o.ExploreRuns
		tot.Seeds += o.Seeds
		tot.SigsCapped = tot.SigsCapped || o.SigsCapped
		for k, v := range o.PerEntry {
			tot.PerEntry[k] += v
		}
		for k, v := range o.Faults {
			tot.Faults[k] += v
		}
		for k, v := range o.Probes {
			tot.Probes[k] += v
		}
		for k, v := range o.SweepCases {
			tot.SweepCases[k] += v
		}
		for _, sw := range p.Sweeps {
			if !o.SweepDone[sw.Name] {
				sweepDone[sw.Name] = false
			}
		}
		for _, s := range o.Sigs {
			sigs[s] = true
		}
		if len(tot.Samples) < 6 {
			tot.Samples = append(tot.Samples, o.Samples...)
		}
		replays = append(replays, o.Violations...)
		unrepro = append(unrepro, o.Unreproducible...)
		if o.WallS > maxWall {
			maxWall = o.WallS
		}
		sumExploreWall += o.ExploreWallS
	}
	if harness == "" && len(unrepro) > 0 && len(replays) == 0 {
		harness = fmt.Sprintf("NONDETERMINISM: %d runs showed a violation (first: %s) that their tape alone does not reproduce in a fresh process, and no run showed a reproducible one: the outcome depends on something the tape does not decide", len(unrepro), unrepro[0])
	}
	if harness != "" {
		fmt.Println("HARNESS: worker failure (no verdict):")
		fmt.Println(harness)
		return 2
	}

	// confirm every violation by replaying it in a fresh process
	known, err := loadKnown()
	if err != nil {
		fmt.Println("HARNESS: cannot read known_findings.json:", err)
		return 2
	}
	sort.Strings(replays)
	{
		var u []string
		for i, r := range replays {
			if i == 0 || r != replays[i-1] {
				u = append(u, r)
			}
		}
		replays = u
	}
	seen := map[string]bool{}
	violations := 0
	knownHits := 0
	var lines []string
	for _, path := range replays {
		b, err := os.ReadFile(path)
		if err != nil {
			fmt.Println("HARNESS:", err)
			return 2
		}
		var rf ReplayFile
		if err := json.Unmarshal(b, &rf); err != nil || rf.Violation == nil {
			fmt.Println("HARNESS: bad replay file", path)
			return 2
		}
		key := violationKey(rf.Violation)
		if seen[key] {
			os.Remove(path)
			continue
		}
		seen[key] = true
		cmd := exec.Command(self, "replay", path)
		out, _ := cmd.CombinedOutput()
		if !strings.Contains(string(out), "REPLAY: same violation as recorded") {
			fmt.Printf("HARNESS: violation in %s did not replay identically in a fresh process; not reported as a violation\n%s\n", path, tail(string(out), 20))
			return 2
		}
		isKnown := false
		for _, k := range known {
			if k.Status == "open" && k.Property == rf.Violation.Property && k.Signature == rf.Violation.Signature && (k.Oracle == "" || k.Oracle == rf.Violation.Oracle) {
				isKnown = true
				lines = append(lines, fmt.Sprintf("KNOWN-FINDING: property=%s %s", k.Property, k.What))
				knownHits++
				os.Remove(path)
			}
		}
		if !isKnown {
			violations++
			lines = append(lines, fmt.Sprintf("  %s", rf.Violation))
			lines = append(lines, fmt.Sprintf("VIOLATION property=%s replay=%s", rf.Property, path))
		}
	}

	wall := time.Since(start).Seconds()
	// evidence
	samples := tot.Samples
	if len(samples) > 6 {
		samples = samples[:6]
	}
	if len(samples) == 0 {
		samples = []interface{}{"(no sample recorded)"}
	}
	tierName := "quick"
	if !quick {
		tierName = "thorough"
	}
	sweeps := map[string]interface{}{}
	allSweepsDone := len(p.Sweeps) > 0
	for _, sw := range p.Sweeps {
		sweeps[sw.Name] = map[string]interface{}{"space": sw.Space, "cases_run": tot.SweepCases[sw.Name], "enumerated_completely": sweepDone[sw.Name]}
		if !sweepDone[sw.Name] {
			allSweepsDone = false
		}
	}
	perHour := func(n int, secs float64) int {
		if secs <= 0 {
			return 0
		}
		return int(float64(n) / secs * 3600)
	}
	cov := map[string]interface{}{
		"evaluations":          tot.Evaluations,
		"distinct_nontrivial":  len(sigs),
		"rule":                 p.Rule,
		"samples":              samples,
		"nontrivial_runs":      tot.NonTrivial,
		"distinct_measure":     "number of distinct 64-bit case/interleaving signatures among non-trivial runs, union over workers" + capNote(tot.SigsCapped),
		"explore_runs":         tot.ExploreRuns,
		"seeds":                tot.Seeds,
		"runs_per_hour":        perHour(tot.Evaluations, wall),
		"seeds_per_hour":       perHour(tot.Seeds, wall),
		"simulated_time":       map[string]interface{}{"unit": "seam events / scheduler steps (the code under these properties reads no clock)", "steps": tot.Steps, "logged_events": tot.Events},
		"faults_fired":         tot.Faults,
		"probes":               tot.Probes,
		"per_entry_runs":       tot.PerEntry,
		"sweeps":               sweeps,
		"workers":              workers,
		"real_components":      p.Real,
		"simulated_components": p.Stub,
		"known_findings_hit":   knownHits,
	}
	if selftestNote != "" {
		cov["determinism_selftest"] = selftestNote
	}
	zero := []string{}
	for k, v := range tot.Probes {
		if v == 0 {
			zero = append(zero, k)
		}
	}
	for _, k := range core.ExpectedProbes(p.ID) {
		if tot.Probes[k] == 0 {
			zero = append(zero, k)
		}
	}
	sort.Strings(zero)
	if len(zero) > 0 {
		cov["WARNING_probes_at_zero"] = zero
	}
	if allSweepsDone && len(p.Explore) == 0 {
		cov["exhaustive"] = true
	}
	ev := map[string]interface{}{
		"property_id": p.ID,
		"tier":        tierName,
		"seed":        seed,
		"level":       "exploration",
		"coverage":    cov,
		"assumptions": p.Assumptions,
		"wall_s":      wall,
		"violations":  violations,
	}
	b, _ := json.MarshalIndent(ev, "", " ")
	if err := os.WriteFile(filepath.Join(outDir, "evidence", p.ID+".json"), b, 0o644); err != nil {
		fmt.Println("HARNESS:", err)
		return 2
	}
	fmt.Printf("%s %s seed=%d: %d runs (%d explore, %d distinct non-trivial), %d steps, faults fired %v, wall %.1fs\n", p.ID, tierName, seed, tot.Evaluations, tot.ExploreRuns, len(sigs), tot.Steps, compact(tot.Faults), wall)
	for _, sw := range p.Sweeps {
		fmt.Printf("  sweep %s: %d cases, complete=%v\n", sw.Name, tot.SweepCases[sw.Name], sweepDone[sw.Name])
	}
	if len(zero) > 0 {
		fmt.Printf("  WARNING probes at zero: %v\n", zero)
	}
	for _, l := range lines {
		fmt.Println(l)
	}
	if violations > 0 {
		return 1
	}
	if len(sigs) < 2 || tot.Evaluations < 1 {
		fmt.Println("HARNESS: too few distinct runs to call this a check")
		return 2
	}
	fmt.Printf("OK property=%s held on everything explored\n", p.ID)
	return 0
}

func capNote(c bool) string {
	if c {
		return " (capped per worker; a lower bound)"
	}
	return ""
}

func compact(m map[string]int) string {
	var ks []string
	for k := range m {
		ks = append(ks, k)
	}
	sort.Strings(ks)
	var sb strings.Builder
	for i, k := range ks {
		if i > 0 {
			sb.WriteString(" ")
		}
		fmt.Fprintf(&sb, "%s=%d", k, m[k])
	}
	return "{" + sb.String() + "}"
}

func tail(s string, n int) string {
	l := strings.Split(strings.TrimRight(s, "\n"), "\n")
	if len(l) > n {
		l = l[len(l)-n:]
	}
	return strings.Join(l, "\n")
}

func readInflight(path string) (inflightRec, bool) {
	var rec inflightRec
	b, err := os.ReadFile(path)
	if err != nil {
		return rec, false
	}
	if json.Unmarshal([]byte(strings.TrimSpace(string(b))), &rec) != nil || rec.Entry == "" {
		return rec, false
	}
	return rec, true
}
